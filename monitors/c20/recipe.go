package main

// Recipes: a deterministic, JSON-serialisable description of an accessory set, the builder that
// turns it into hc objects, the mutations between two runs of a history, and the monitor's own
// structure fingerprint of an attribute database (independent of hc's ContentHash).

import (
	"bytes"
	"crypto/sha256"
	"encoding/hex"
	"encoding/json"
	"fmt"
	"math/rand"
	"sort"
	"strconv"
	"strings"

	"github.com/brutella/hc/accessory"
	"github.com/brutella/hc/characteristic"
	"github.com/brutella/hc/service"
)

// ---------------------------------------------------------------- recipe types

type CharSpec struct {
	Type   string      `json:"type"`
	Format string      `json:"format"`
	Perms  []string    `json:"perms"`
	Unit   string      `json:"unit,omitempty"`
	Desc   string      `json:"desc,omitempty"`
	MaxLen int         `json:"max_len,omitempty"`
	Min    *float64    `json:"min,omitempty"`
	Max    *float64    `json:"max,omitempty"`
	Step   *float64    `json:"step,omitempty"`
	Value  interface{} `json:"value,omitempty"` // nil: the characteristic has no value
}

type SvcSpec struct {
	Type    string     `json:"type"`
	Chars   []CharSpec `json:"chars"`
	Primary bool       `json:"primary,omitempty"`
	Hidden  bool       `json:"hidden,omitempty"`
	Linked  []int      `json:"linked,omitempty"` // indices of services of the same accessory
}

type AddChar struct {
	Svc  int      `json:"svc"`
	Char CharSpec `json:"char"`
}

// Patch changes one characteristic of the constructed accessory, addressed by its position
// (service index, characteristic index) before anything is dropped.
type Patch struct {
	Svc  int `json:"svc"`
	Char int `json:"char"`

	Perms      []string    `json:"perms,omitempty"` // nil: unchanged
	Min        *float64    `json:"min,omitempty"`
	Max        *float64    `json:"max,omitempty"`
	Step       *float64    `json:"step,omitempty"`
	Type       *string     `json:"type,omitempty"`
	Unit       *string     `json:"unit,omitempty"`
	Desc       *string     `json:"desc,omitempty"`
	MaxLen     *int        `json:"max_len,omitempty"`
	Value      interface{} `json:"value,omitempty"`
	HasValue   bool        `json:"has_value,omitempty"`
	ClearValue bool        `json:"clear_value,omitempty"`
	Drop       bool        `json:"drop,omitempty"`
}

type SvcPatch struct {
	Svc     int     `json:"svc"`
	Type    *string `json:"type,omitempty"`
	Primary *bool   `json:"primary,omitempty"`
	Hidden  *bool   `json:"hidden,omitempty"`
	Linked  *[]int  `json:"linked,omitempty"` // replaces the list of linked services (indices into the accessory's services)
	Drop    bool    `json:"drop,omitempty"`
}

type AccSpec struct {
	Kind         string    `json:"kind"` // switch lightbulb colored-lightbulb outlet thermostat sensor bridge custom
	Name         string    `json:"name"`
	Serial       string    `json:"serial,omitempty"`
	Manufacturer string    `json:"manufacturer,omitempty"`
	Model        string    `json:"model,omitempty"`
	Firmware     string    `json:"firmware,omitempty"`
	ID           uint64    `json:"id,omitempty"`       // explicit accessory id, 0 = assigned by the container
	Category     int       `json:"category,omitempty"` // accessory type of kind custom
	Params       []float64 `json:"params,omitempty"`   // thermostat / sensor: temp, min, max, step

	Extra      []SvcSpec  `json:"extra,omitempty"`
	AddChars   []AddChar  `json:"add_chars,omitempty"`
	Patches    []Patch    `json:"patches,omitempty"`
	SvcPatches []SvcPatch `json:"svc_patches,omitempty"`
}

type Recipe struct {
	Accs []AccSpec `json:"accessories"`
}

func (r Recipe) clone() Recipe {
	b, _ := json.Marshal(r)
	var c Recipe
	if err := json.Unmarshal(b, &c); err != nil {
		panic(err)
	}
	return c
}

// ---------------------------------------------------------------- builder

func isIntFormat(f string) bool {
	switch f {
	case characteristic.FormatUInt8, characteristic.FormatUInt16, characteristic.FormatUInt32, characteristic.FormatUInt64, characteristic.FormatInt32:
		return true
	}
	return false
}

// normValue gives a recipe value the Go type hc uses for the format (recipes travel through JSON,
// where every number is a float64).
func normValue(format string, v interface{}) interface{} {
	switch {
	case isIntFormat(format):
		switch x := v.(type) {
		case float64:
			return int(x)
		case int:
			return x
		case json.Number:
			i, _ := x.Int64()
			return int(i)
		}
	case format == characteristic.FormatFloat:
		switch x := v.(type) {
		case float64:
			return x
		case int:
			return float64(x)
		}
	case format == characteristic.FormatBool:
		if b, ok := v.(bool); ok {
			return b
		}
	case format == characteristic.FormatString:
		if s, ok := v.(string); ok {
			return s
		}
	}
	return v
}

func bound(format string, f float64) interface{} {
	if isIntFormat(format) {
		return int(f)
	}
	return f
}

func newChar(cs CharSpec) *characteristic.Characteristic {
	c := characteristic.NewCharacteristic(cs.Type)
	c.Format = cs.Format
	c.Perms = append([]string{}, cs.Perms...)
	c.Unit = cs.Unit
	c.Description = cs.Desc
	c.MaxLen = cs.MaxLen
	if cs.Min != nil {
		c.MinValue = bound(cs.Format, *cs.Min)
	}
	if cs.Max != nil {
		c.MaxValue = bound(cs.Format, *cs.Max)
	}
	if cs.Step != nil {
		c.StepValue = bound(cs.Format, *cs.Step)
	}
	if cs.Value != nil {
		c.UpdateValue(normValue(cs.Format, cs.Value))
	}
	return c
}

func param(p []float64, i int, def float64) float64 {
	if i < len(p) {
		return p[i]
	}
	return def
}

// construct calls the hc constructor of the kind and appends the synthetic services / characteristics;
// patches and drops are not applied yet (constructShape is what mutations address).
func construct(s AccSpec) *accessory.Accessory {
	info := accessory.Info{Name: s.Name, SerialNumber: s.Serial, Manufacturer: s.Manufacturer, Model: s.Model, FirmwareRevision: s.Firmware, ID: s.ID}
	var a *accessory.Accessory
	switch s.Kind {
	case "switch":
		a = accessory.NewSwitch(info).Accessory
	case "lightbulb":
		a = accessory.NewLightbulb(info).Accessory
	case "colored-lightbulb":
		a = accessory.NewColoredLightbulb(info).Accessory
	case "outlet":
		a = accessory.NewOutlet(info).Accessory
	case "thermostat":
		a = accessory.NewThermostat(info, param(s.Params, 0, 20), param(s.Params, 1, 10), param(s.Params, 2, 30), param(s.Params, 3, 0.5)).Accessory
	case "sensor":
		a = accessory.NewTemperatureSensor(info, param(s.Params, 0, 20), param(s.Params, 1, -10), param(s.Params, 2, 60), param(s.Params, 3, 0.1)).Accessory
	case "bridge":
		a = accessory.NewBridge(info).Accessory
	default:
		a = accessory.New(info, accessory.AccessoryType(s.Category))
	}
	for _, es := range s.Extra {
		sv := service.New(es.Type)
		for _, cs := range es.Chars {
			sv.AddCharacteristic(newChar(cs))
		}
		sv.Primary = es.Primary
		sv.Hidden = es.Hidden
		a.AddService(sv)
	}
	for i, es := range s.Extra {
		sv := a.Services[len(a.Services)-len(s.Extra)+i]
		for _, l := range es.Linked {
			if l >= 0 && l < len(a.Services) && a.Services[l] != sv {
				sv.AddLinkedService(a.Services[l])
			}
		}
	}
	for _, ac := range s.AddChars {
		if ac.Svc >= 0 && ac.Svc < len(a.Services) {
			a.Services[ac.Svc].AddCharacteristic(newChar(ac.Char))
		}
	}
	return a
}

func buildAcc(s AccSpec) *accessory.Accessory {
	a := construct(s)
	dropChar := map[*characteristic.Characteristic]bool{}
	dropSvc := map[*service.Service]bool{}
	for _, p := range s.Patches {
		if p.Svc < 0 || p.Svc >= len(a.Services) || p.Char < 0 || p.Char >= len(a.Services[p.Svc].Characteristics) {
			continue
		}
		c := a.Services[p.Svc].Characteristics[p.Char]
		if p.Perms != nil {
			c.Perms = append([]string{}, p.Perms...)
		}
		if p.Type != nil {
			c.Type = *p.Type
		}
		if p.Unit != nil {
			c.Unit = *p.Unit
		}
		if p.Desc != nil {
			c.Description = *p.Desc
		}
		if p.MaxLen != nil {
			c.MaxLen = *p.MaxLen
		}
		if p.Min != nil {
			c.MinValue = bound(c.Format, *p.Min)
		}
		if p.Max != nil {
			c.MaxValue = bound(c.Format, *p.Max)
		}
		if p.Step != nil {
			c.StepValue = bound(c.Format, *p.Step)
		}
		if p.HasValue && p.Value != nil {
			c.UpdateValue(normValue(c.Format, p.Value))
		}
		if p.ClearValue {
			c.Value = nil
		}
		if p.Drop {
			dropChar[c] = true
		}
	}
	for _, p := range s.SvcPatches {
		if p.Svc < 0 || p.Svc >= len(a.Services) {
			continue
		}
		sv := a.Services[p.Svc]
		if p.Type != nil {
			sv.Type = *p.Type
		}
		if p.Primary != nil {
			sv.Primary = *p.Primary
		}
		if p.Hidden != nil {
			sv.Hidden = *p.Hidden
		}
		if p.Linked != nil {
			sv.Linked = []*service.Service{}
			for _, l := range *p.Linked {
				if l >= 0 && l < len(a.Services) && a.Services[l] != sv {
					sv.AddLinkedService(a.Services[l])
				}
			}
		}
		if p.Drop {
			dropSvc[sv] = true
		}
	}
	var svcs []*service.Service
	for _, sv := range a.Services {
		if dropSvc[sv] {
			continue
		}
		var cs []*characteristic.Characteristic
		for _, c := range sv.Characteristics {
			if !dropChar[c] {
				cs = append(cs, c)
			}
		}
		if cs == nil {
			cs = []*characteristic.Characteristic{}
		}
		sv.Characteristics = cs
		var ls []*service.Service
		for _, l := range sv.Linked {
			if !dropSvc[l] {
				ls = append(ls, l)
			}
		}
		if ls == nil {
			ls = []*service.Service{}
		}
		sv.Linked = ls
		svcs = append(svcs, sv)
	}
	a.Services = svcs
	return a
}

func build(r Recipe) []*accessory.Accessory {
	var out []*accessory.Accessory
	for _, s := range r.Accs {
		out = append(out, buildAcc(s))
	}
	return out
}

// expectedCategory is hc's documented rule: several accessories are served as a bridge, a single
// accessory with its own type.
func expectedCategory(accs []*accessory.Accessory) int {
	if len(accs) > 1 {
		return int(accessory.TypeBridge)
	}
	return int(accs[0].Type)
}

// ---------------------------------------------------------------- structure fingerprint (own walker)

// stripValues removes every member named "value" at any depth.
func stripValues(v interface{}) interface{} {
	switch x := v.(type) {
	case map[string]interface{}:
		out := make(map[string]interface{}, len(x))
		for k, e := range x {
			if k == "value" {
				continue
			}
			out[k] = stripValues(e)
		}
		return out
	case []interface{}:
		out := make([]interface{}, len(x))
		for i, e := range x {
			out[i] = stripValues(e)
		}
		return out
	}
	return v
}

// canon writes a decoded JSON value with sorted keys; numbers keep their literal text.
func canon(w *bytes.Buffer, v interface{}) {
	switch x := v.(type) {
	case map[string]interface{}:
		keys := make([]string, 0, len(x))
		for k := range x {
			keys = append(keys, k)
		}
		sort.Strings(keys)
		w.WriteByte('{')
		for i, k := range keys {
			if i > 0 {
				w.WriteByte(',')
			}
			w.WriteString(strconv.Quote(k))
			w.WriteByte(':')
			canon(w, x[k])
		}
		w.WriteByte('}')
	case []interface{}:
		w.WriteByte('[')
		for i, e := range x {
			if i > 0 {
				w.WriteByte(',')
			}
			canon(w, e)
		}
		w.WriteByte(']')
	case json.Number:
		w.WriteString(x.String())
	case string:
		w.WriteString(strconv.Quote(x))
	case bool:
		if x {
			w.WriteString("true")
		} else {
			w.WriteString("false")
		}
	case nil:
		w.WriteString("null")
	default:
		fmt.Fprintf(w, "%v", x)
	}
}

// structureOf returns the canonical text of an attribute database with all values removed.
func structureOf(db []byte) (string, error) {
	dec := json.NewDecoder(bytes.NewReader(db))
	dec.UseNumber()
	var v interface{}
	if err := dec.Decode(&v); err != nil {
		return "", err
	}
	var w bytes.Buffer
	canon(&w, stripValues(v))
	return w.String(), nil
}

func shortHash(s string) string {
	h := sha256.Sum256([]byte(s))
	return hex.EncodeToString(h[:10])
}

// localDB is the attribute database of the accessories as the monitor itself would serve it.
func localDB(accs []*accessory.Accessory) ([]byte, error) {
	return json.Marshal(struct {
		Accessories []*accessory.Accessory `json:"accessories"`
	}{accs})
}

// firstDiff shows where two canonical texts part (for witnesses).
func firstDiff(a, b string) string {
	i := 0
	for i < len(a) && i < len(b) && a[i] == b[i] {
		i++
	}
	from := i - 60
	if from < 0 {
		from = 0
	}
	cut := func(s string) string {
		to := i + 80
		if to > len(s) {
			to = len(s)
		}
		if from > len(s) {
			return ""
		}
		return s[from:to]
	}
	return fmt.Sprintf("at byte %d: previous ...%s... | now ...%s...", i, cut(a), cut(b))
}

// ---------------------------------------------------------------- generators

var customTypes = []string{
	"F0000010-0000-1000-8000-0026BB765291", "F0000011-0000-1000-8000-0026BB765291", "F0000012-0000-1000-8000-0026BB765291",
	"F0000013-0000-1000-8000-0026BB765291", "A1B2C3D4-0000-1000-8000-0026BB765291", "43", "49", "4A", "25", "8",
}

func fp(f float64) *float64 { return &f }
func sp(s string) *string   { return &s }
func ip(i int) *int         { return &i }
func bp(b bool) *bool       { return &b }

func randWord(rnd *rand.Rand) string {
	words := []string{"Lamp", "Żarówka", "Plug", "Küche", "Desk", "Hall 2", "居間", "Fan", "Garage", "A", "Porch light with a rather long name", "x_y", "é"}
	return words[rnd.Intn(len(words))] + " " + strconv.Itoa(rnd.Intn(1000))
}

func randValue(format string, min, max interface{}, rnd *rand.Rand) interface{} {
	switch {
	case format == characteristic.FormatBool:
		return rnd.Intn(2) == 0
	case isIntFormat(format):
		lo, hi := 0, 100
		if v, ok := min.(int); ok {
			lo = v
		}
		if v, ok := max.(int); ok {
			hi = v
		}
		if hi < lo {
			hi = lo
		}
		return lo + rnd.Intn(hi-lo+1)
	case format == characteristic.FormatFloat:
		lo, hi := 0.0, 100.0
		if v, ok := min.(float64); ok {
			lo = v
		}
		if v, ok := max.(float64); ok {
			hi = v
		}
		if hi < lo {
			hi = lo
		}
		return float64(int((lo+rnd.Float64()*(hi-lo))*10)) / 10
	case format == characteristic.FormatString:
		return randText(rnd)
	}
	return nil
}

// randText: mostly a word; every fourth value has a length around the sizes string metadata speaks of (the default
// maximum length of 64 bytes, the largest announced one of 256) or is empty
func randText(rnd *rand.Rand) string {
	if rnd.Intn(4) > 0 {
		return randWord(rnd)
	}
	n := []int{0, 1, 63, 64, 65, 100, 255, 256, 257, 1000}[rnd.Intn(10)]
	return strings.Repeat(randWord(rnd)+" ", n/3+1)[:n]
}

func randCharSpec(rnd *rand.Rand) CharSpec {
	formats := []string{characteristic.FormatBool, characteristic.FormatUInt8, characteristic.FormatInt32, characteristic.FormatFloat, characteristic.FormatString, characteristic.FormatUInt32}
	permSets := [][]string{characteristic.PermsAll(), characteristic.PermsRead(), characteristic.PermsReadOnly(), {"pr", "pw"}, {"pr", "pw", "ev", "hd"}}
	cs := CharSpec{Type: customTypes[rnd.Intn(len(customTypes))], Format: formats[rnd.Intn(len(formats))], Perms: permSets[rnd.Intn(len(permSets))]}
	if isIntFormat(cs.Format) || cs.Format == characteristic.FormatFloat {
		if rnd.Intn(2) == 0 {
			cs.Min, cs.Max, cs.Step = fp(float64(rnd.Intn(10))), fp(float64(50+rnd.Intn(50))), fp(float64(1+rnd.Intn(3)))
		}
		if rnd.Intn(3) == 0 {
			cs.Unit = []string{characteristic.UnitPercentage, characteristic.UnitCelsius, characteristic.UnitLux}[rnd.Intn(3)]
		}
	}
	if cs.Format == characteristic.FormatString && rnd.Intn(2) == 0 {
		cs.MaxLen = 64 + rnd.Intn(100)
	}
	if rnd.Intn(4) == 0 {
		cs.Desc = "custom " + strconv.Itoa(rnd.Intn(100))
	}
	if rnd.Intn(6) != 0 { // sometimes no value at all
		var lo, hi interface{}
		if cs.Min != nil {
			lo, hi = bound(cs.Format, *cs.Min), bound(cs.Format, *cs.Max)
		}
		cs.Value = randValue(cs.Format, lo, hi, rnd)
	}
	return cs
}

func randSvcSpec(rnd *rand.Rand) SvcSpec {
	s := SvcSpec{Type: customTypes[rnd.Intn(len(customTypes))]}
	for i, n := 0, 1+rnd.Intn(3); i < n; i++ {
		s.Chars = append(s.Chars, randCharSpec(rnd))
	}
	s.Primary = rnd.Intn(5) == 0
	s.Hidden = rnd.Intn(7) == 0
	if rnd.Intn(4) == 0 {
		s.Linked = []int{rnd.Intn(2)}
	}
	return s
}

var kinds = []string{"switch", "lightbulb", "colored-lightbulb", "outlet", "thermostat", "sensor", "bridge", "custom"}

func randAccSpec(rnd *rand.Rand, first bool) AccSpec {
	a := AccSpec{Kind: kinds[rnd.Intn(len(kinds))], Name: randWord(rnd)}
	if first && rnd.Intn(3) == 0 {
		a.Kind = "bridge"
	}
	if rnd.Intn(2) == 0 {
		a.Serial = strconv.Itoa(rnd.Intn(1e9))
	}
	if rnd.Intn(3) == 0 {
		a.Manufacturer, a.Model = "verif", "m"+strconv.Itoa(rnd.Intn(50))
	}
	if rnd.Intn(4) == 0 {
		a.Firmware = fmt.Sprintf("%d.%d.%d", rnd.Intn(5), rnd.Intn(10), rnd.Intn(10))
	}
	switch a.Kind {
	case "thermostat", "sensor":
		a.Params = []float64{float64(15 + rnd.Intn(10)), float64(rnd.Intn(10)), float64(30 + rnd.Intn(10)), []float64{0.1, 0.5, 1}[rnd.Intn(3)]}
	case "custom":
		a.Category = 1 + rnd.Intn(36)
		a.Extra = append(a.Extra, randSvcSpec(rnd))
	}
	if rnd.Intn(3) == 0 {
		a.Extra = append(a.Extra, randSvcSpec(rnd))
	}
	return a
}

func randRecipe(rnd *rand.Rand) Recipe {
	n := 1
	switch rnd.Intn(5) {
	case 0, 1:
		n = 2 + rnd.Intn(3)
	case 2:
		n = 5 + rnd.Intn(6)
	}
	var r Recipe
	for i := 0; i < n; i++ {
		r.Accs = append(r.Accs, randAccSpec(rnd, i == 0 && n > 1))
	}
	if rnd.Intn(4) == 0 { // explicit ids for everything
		for i := range r.Accs {
			r.Accs[i].ID = uint64(100 + i*3)
		}
	}
	return r
}

// ---------------------------------------------------------------- mutations between runs

type charRef struct {
	acc, svc, char int
	c              *characteristic.Characteristic
}

func (r *Recipe) patchFor(acc, svc, char int) *Patch {
	a := &r.Accs[acc]
	for i := range a.Patches {
		if a.Patches[i].Svc == svc && a.Patches[i].Char == char {
			return &a.Patches[i]
		}
	}
	a.Patches = append(a.Patches, Patch{Svc: svc, Char: char})
	return &a.Patches[len(a.Patches)-1]
}

func (r *Recipe) svcPatchFor(acc, svc int) *SvcPatch {
	a := &r.Accs[acc]
	for i := range a.SvcPatches {
		if a.SvcPatches[i].Svc == svc {
			return &a.SvcPatches[i]
		}
	}
	a.SvcPatches = append(a.SvcPatches, SvcPatch{Svc: svc})
	return &a.SvcPatches[len(a.SvcPatches)-1]
}

func (r *Recipe) dropped(acc, svc, char int) bool {
	for _, p := range r.Accs[acc].SvcPatches {
		if p.Svc == svc && p.Drop {
			return true
		}
	}
	if char < 0 {
		return false
	}
	for _, p := range r.Accs[acc].Patches {
		if p.Svc == svc && p.Char == char && p.Drop {
			return true
		}
	}
	return false
}

// liveChars returns the characteristics that are present in the built set, as positions in the
// constructed accessory and with the *built* (patched) characteristic object for inspection.
func liveChars(r Recipe, pred func(ref charRef) bool) []charRef {
	var out []charRef
	for ai, as := range r.Accs {
		// build applies patches in place on the constructed object, so positions can be read from an
		// accessory that is patched but from which nothing is dropped
		nodrop := as
		nodrop.Patches = nil
		for _, p := range as.Patches {
			p.Drop = false
			nodrop.Patches = append(nodrop.Patches, p)
		}
		nodrop.SvcPatches = nil
		for _, p := range as.SvcPatches {
			p.Drop = false
			nodrop.SvcPatches = append(nodrop.SvcPatches, p)
		}
		a := buildAcc(nodrop)
		for si, sv := range a.Services {
			for ci, c := range sv.Characteristics {
				if r.dropped(ai, si, ci) {
					continue
				}
				ref := charRef{ai, si, ci, c}
				if pred == nil || pred(ref) {
					out = append(out, ref)
				}
			}
		}
	}
	return out
}

type mutation struct {
	Kind       string `json:"kind"`
	Structural bool   `json:"structural"`
	Detail     string `json:"detail"`
}

var structuralKinds = []string{"acc-added", "acc-removed", "svc-added", "svc-removed", "char-added", "char-removed", "perm-added", "perm-removed",
	"bound-changed", "type-changed", "acc-swapped", "acc-id-changed", "meta-changed", "kind-changed", "svc-links-changed"}
var valueKinds = []string{"value-changed", "name-changed", "info-changed", "value-presence", "category-changed", "temp-param-changed"}

func hasPerm(ps []string, p string) bool {
	for _, x := range ps {
		if x == p {
			return true
		}
	}
	return false
}

func numeric(c *characteristic.Characteristic) bool {
	return isIntFormat(c.Format) || c.Format == characteristic.FormatFloat
}

func usedIDs(r Recipe) map[uint64]bool {
	m := map[uint64]bool{}
	for _, a := range r.Accs {
		if a.ID != 0 {
			m[a.ID] = true
		}
	}
	return m
}

// mutate applies one mutation of the given kind to r; ok=false when the kind is not applicable.
func mutate(r *Recipe, kind string, rnd *rand.Rand) (m mutation, ok bool) {
	m.Kind = kind
	nacc := len(r.Accs)
	pickAcc := func() int { return rnd.Intn(nacc) }
	switch kind {
	// ------------------------------------------------ structural
	case "acc-added":
		m.Structural = true
		if nacc >= 14 {
			return m, false
		}
		a := randAccSpec(rnd, false)
		if used := usedIDs(*r); len(used) > 0 && rnd.Intn(2) == 0 {
			id := uint64(200 + rnd.Intn(50))
			for used[id] {
				id++
			}
			a.ID = id
		}
		pos := nacc
		if rnd.Intn(3) == 0 {
			pos = rnd.Intn(nacc + 1)
		}
		r.Accs = append(r.Accs[:pos], append([]AccSpec{a}, r.Accs[pos:]...)...)
		m.Detail = fmt.Sprintf("%s inserted at position %d of %d", a.Kind, pos, nacc)
		return m, true
	case "acc-removed":
		m.Structural = true
		if nacc < 2 {
			return m, false
		}
		pos := 1 + rnd.Intn(nacc-1)
		if rnd.Intn(4) == 0 {
			pos = 0
		}
		m.Detail = fmt.Sprintf("%s removed at position %d of %d", r.Accs[pos].Kind, pos, nacc)
		r.Accs = append(r.Accs[:pos], r.Accs[pos+1:]...)
		return m, true
	case "svc-added":
		m.Structural = true
		ai := pickAcc()
		// prefer to bring back a dropped service
		for i := range r.Accs[ai].SvcPatches {
			if r.Accs[ai].SvcPatches[i].Drop && rnd.Intn(2) == 0 {
				r.Accs[ai].SvcPatches[i].Drop = false
				m.Detail = fmt.Sprintf("accessory %d: dropped service %d is back", ai, r.Accs[ai].SvcPatches[i].Svc)
				return m, true
			}
		}
		if len(r.Accs[ai].Extra) >= 5 {
			return m, false
		}
		r.Accs[ai].Extra = append(r.Accs[ai].Extra, randSvcSpec(rnd))
		m.Detail = fmt.Sprintf("accessory %d: synthetic service appended", ai)
		return m, true
	case "svc-removed":
		m.Structural = true
		var cand [][2]int
		for ai, as := range r.Accs {
			a := construct(as)
			for si := 1; si < len(a.Services); si++ { // never the accessory information service
				if !r.dropped(ai, si, -1) {
					cand = append(cand, [2]int{ai, si})
				}
			}
		}
		if len(cand) == 0 {
			return m, false
		}
		c := cand[rnd.Intn(len(cand))]
		r.svcPatchFor(c[0], c[1]).Drop = true
		m.Detail = fmt.Sprintf("accessory %d: service %d dropped", c[0], c[1])
		return m, true
	case "char-added":
		m.Structural = true
		ai := pickAcc()
		a := construct(r.Accs[ai])
		var svcs []int
		for si := range a.Services {
			if !r.dropped(ai, si, -1) {
				svcs = append(svcs, si)
			}
		}
		if len(svcs) == 0 || len(r.Accs[ai].AddChars) >= 6 {
			return m, false
		}
		si := svcs[rnd.Intn(len(svcs))]
		r.Accs[ai].AddChars = append(r.Accs[ai].AddChars, AddChar{Svc: si, Char: randCharSpec(rnd)})
		m.Detail = fmt.Sprintf("accessory %d service %d: characteristic appended", ai, si)
		return m, true
	case "char-removed":
		m.Structural = true
		cand := liveChars(*r, func(c charRef) bool { return c.svc > 0 })
		if len(cand) == 0 {
			return m, false
		}
		c := cand[rnd.Intn(len(cand))]
		r.patchFor(c.acc, c.svc, c.char).Drop = true
		m.Detail = fmt.Sprintf("accessory %d service %d characteristic %d (type %s) dropped", c.acc, c.svc, c.char, c.c.Type)
		return m, true
	case "perm-added":
		m.Structural = true
		cand := liveChars(*r, nil)
		c := cand[rnd.Intn(len(cand))]
		for _, p := range []string{"hd", "ev", "pw", "pr", "wr", "aa", "tw"} {
			if !hasPerm(c.c.Perms, p) && (p != "pr" || c.c.Value != nil) {
				r.patchFor(c.acc, c.svc, c.char).Perms = append(append([]string{}, c.c.Perms...), p)
				m.Detail = fmt.Sprintf("accessory %d service %d characteristic %d (type %s): permission %s added", c.acc, c.svc, c.char, c.c.Type, p)
				return m, true
			}
		}
		return m, false
	case "perm-removed":
		m.Structural = true
		cand := liveChars(*r, func(c charRef) bool { return len(c.c.Perms) > 1 && c.svc > 0 })
		if len(cand) == 0 {
			return m, false
		}
		c := cand[rnd.Intn(len(cand))]
		i := rnd.Intn(len(c.c.Perms))
		np := append([]string{}, c.c.Perms[:i]...)
		np = append(np, c.c.Perms[i+1:]...)
		r.patchFor(c.acc, c.svc, c.char).Perms = np
		m.Detail = fmt.Sprintf("accessory %d service %d characteristic %d (type %s): permission %s removed", c.acc, c.svc, c.char, c.c.Type, c.c.Perms[i])
		return m, true
	case "bound-changed":
		m.Structural = true
		// either a constructor parameter of a thermostat / sensor, or a patched bound
		var th []int
		for ai, a := range r.Accs {
			if (a.Kind == "thermostat" || a.Kind == "sensor") && len(a.Params) == 4 {
				th = append(th, ai)
			}
		}
		if len(th) > 0 && rnd.Intn(2) == 0 {
			ai := th[rnd.Intn(len(th))]
			switch rnd.Intn(3) {
			case 0:
				r.Accs[ai].Params[1] -= 1
			case 1:
				r.Accs[ai].Params[2] += 1
			default:
				r.Accs[ai].Params[3] = map[float64]float64{0.1: 0.5, 0.5: 1, 1: 0.1}[r.Accs[ai].Params[3]]
			}
			m.Detail = fmt.Sprintf("accessory %d: constructor bounds now %v", ai, r.Accs[ai].Params[1:])
			return m, true
		}
		cand := liveChars(*r, func(c charRef) bool { return numeric(c.c) })
		if len(cand) == 0 {
			return m, false
		}
		c := cand[rnd.Intn(len(cand))]
		p := r.patchFor(c.acc, c.svc, c.char)
		get := func(v interface{}, def float64) float64 {
			switch x := v.(type) {
			case int:
				return float64(x)
			case float64:
				return x
			}
			return def
		}
		switch rnd.Intn(3) {
		case 0:
			p.Min = fp(get(c.c.MinValue, 0) - 1)
			m.Detail = fmt.Sprintf("minValue %v -> %v", c.c.MinValue, *p.Min)
		case 1:
			p.Max = fp(get(c.c.MaxValue, 100) + 1)
			m.Detail = fmt.Sprintf("maxValue %v -> %v", c.c.MaxValue, *p.Max)
		default:
			p.Step = fp(get(c.c.StepValue, 1) + 1)
			m.Detail = fmt.Sprintf("minStep %v -> %v", c.c.StepValue, *p.Step)
		}
		m.Detail = fmt.Sprintf("accessory %d service %d characteristic %d (type %s, %s): ", c.acc, c.svc, c.char, c.c.Type, c.c.Format) + m.Detail
		return m, true
	case "type-changed":
		m.Structural = true
		if rnd.Intn(3) == 0 { // a service type
			var cand [][2]int
			for ai, as := range r.Accs {
				a := construct(as)
				for si := 1; si < len(a.Services); si++ {
					if !r.dropped(ai, si, -1) {
						cand = append(cand, [2]int{ai, si})
					}
				}
			}
			if len(cand) > 0 {
				c := cand[rnd.Intn(len(cand))]
				t := "E" + strconv.Itoa(1000000+rnd.Intn(8999999)) + "-0000-1000-8000-0026BB765291"
				r.svcPatchFor(c[0], c[1]).Type = sp(t)
				m.Detail = fmt.Sprintf("accessory %d service %d: type now %s", c[0], c[1], t)
				return m, true
			}
		}
		cand := liveChars(*r, nil)
		c := cand[rnd.Intn(len(cand))]
		t := "D" + strconv.Itoa(1000000+rnd.Intn(8999999)) + "-0000-1000-8000-0026BB765291"
		r.patchFor(c.acc, c.svc, c.char).Type = sp(t)
		m.Detail = fmt.Sprintf("accessory %d service %d characteristic %d: type %s -> %s", c.acc, c.svc, c.char, c.c.Type, t)
		return m, true
	case "acc-swapped":
		m.Structural = true
		if nacc < 2 {
			return m, false
		}
		i := rnd.Intn(nacc)
		j := rnd.Intn(nacc - 1)
		if j >= i {
			j++
		}
		r.Accs[i], r.Accs[j] = r.Accs[j], r.Accs[i]
		m.Detail = fmt.Sprintf("accessories at positions %d and %d swapped", i, j)
		return m, true
	case "acc-id-changed":
		m.Structural = true
		ai := pickAcc()
		used := usedIDs(*r)
		id := uint64(300 + rnd.Intn(1000))
		for used[id] {
			id++
		}
		m.Detail = fmt.Sprintf("accessory at position %d: explicit id %d -> %d", ai, r.Accs[ai].ID, id)
		r.Accs[ai].ID = id
		return m, true
	case "meta-changed":
		m.Structural = true
		cand := liveChars(*r, nil)
		c := cand[rnd.Intn(len(cand))]
		p := r.patchFor(c.acc, c.svc, c.char)
		switch rnd.Intn(4) {
		case 0:
			p.Desc = sp("described " + strconv.Itoa(rnd.Intn(1e6)))
			m.Detail = "description changed"
		case 1:
			u := characteristic.UnitSeconds
			if c.c.Unit == u {
				u = characteristic.UnitPPM
			}
			p.Unit = sp(u)
			m.Detail = "unit " + c.c.Unit + " -> " + u
		case 2:
			p.MaxLen = ip(c.c.MaxLen + 1 + rnd.Intn(10))
			m.Detail = fmt.Sprintf("maxLen %d -> %d", c.c.MaxLen, *p.MaxLen)
		default:
			a := construct(r.Accs[c.acc])
			sv := a.Services[c.svc]
			spt := r.svcPatchFor(c.acc, c.svc)
			cur := sv.Hidden
			if spt.Hidden != nil {
				cur = *spt.Hidden
			}
			spt.Hidden = bp(!cur)
			m.Detail = fmt.Sprintf("service hidden %v -> %v", cur, !cur)
		}
		m.Detail = fmt.Sprintf("accessory %d service %d characteristic %d (type %s): ", c.acc, c.svc, c.char, c.c.Type) + m.Detail
		return m, true
	case "svc-links-changed":
		// only the primary flag or the list of linked services of one service changes: same accessories, services,
		// characteristics and metadata
		m.Structural = true
		ai := pickAcc()
		for _, p := range r.Accs[ai].SvcPatches {
			if p.Drop {
				return m, false // service indices of the patches refer to the accessory before drops
			}
		}
		a := construct(r.Accs[ai])
		if len(a.Services) < 2 {
			return m, false
		}
		si := rnd.Intn(len(a.Services))
		sv := a.Services[si]
		spt := r.svcPatchFor(ai, si)
		if rnd.Intn(3) == 0 {
			spt.Primary = bp(!sv.Primary)
			m.Detail = fmt.Sprintf("accessory %d service %d: primary %v -> %v", ai, si, sv.Primary, !sv.Primary)
			return m, true
		}
		var cur []int
		for _, l := range sv.Linked {
			for k, o := range a.Services {
				if o == l {
					cur = append(cur, k)
				}
			}
		}
		var next []int
		if len(cur) > 0 && rnd.Intn(2) == 0 {
			next = append(next, cur[1:]...) // one link removed
		} else {
			other := (si + 1 + rnd.Intn(len(a.Services)-1)) % len(a.Services)
			for _, c := range cur {
				if c == other {
					return m, false
				}
			}
			next = append(append(next, cur...), other) // one link added
		}
		spt.Linked = &next
		m.Detail = fmt.Sprintf("accessory %d service %d: linked services %v -> %v", ai, si, cur, next)
		return m, true
	case "kind-changed":
		m.Structural = true
		ai := pickAcc()
		old := r.Accs[ai].Kind
		nk := []string{"switch", "lightbulb", "colored-lightbulb", "outlet"}[rnd.Intn(4)]
		if nk == old {
			nk = "thermostat"
		}
		// positions of patches belong to the old kind: forget them
		a := &r.Accs[ai]
		a.Kind, a.Params, a.Patches, a.SvcPatches, a.AddChars, a.Extra = nk, nil, nil, nil, nil, nil
		if nk == "thermostat" {
			a.Params = []float64{21, 10, 35, 0.5}
		}
		m.Detail = fmt.Sprintf("accessory at position %d: %s -> %s", ai, old, nk)
		return m, true

	// ------------------------------------------------ value only
	case "value-changed":
		cand := liveChars(*r, func(c charRef) bool {
			return hasPerm(c.c.Perms, "pr") && c.c.Value != nil && !(c.svc == 0 && c.c.Format == characteristic.FormatString) && c.c.Format != characteristic.FormatTLV8 && c.c.Format != characteristic.FormatData
		})
		if len(cand) == 0 {
			return m, false
		}
		c := cand[rnd.Intn(len(cand))]
		v := randValue(c.c.Format, c.c.MinValue, c.c.MaxValue, rnd)
		if v == nil {
			return m, false
		}
		p := r.patchFor(c.acc, c.svc, c.char)
		p.Value, p.HasValue, p.ClearValue = v, true, false
		m.Detail = fmt.Sprintf("accessory %d service %d characteristic %d (type %s): initial value %v -> %v", c.acc, c.svc, c.char, c.c.Type, c.c.Value, v)
		return m, true
	case "name-changed":
		ai := 0
		if rnd.Intn(3) == 0 {
			ai = pickAcc()
		}
		old := r.Accs[ai].Name
		r.Accs[ai].Name = randWord(rnd) + " renamed"
		if rnd.Intn(4) == 0 {
			r.Accs[ai].Name += strings.Repeat(" and again", []int{6, 7, 26, 100}[rnd.Intn(4)])
		}
		m.Detail = fmt.Sprintf("accessory at position %d: name %q -> %q", ai, old, r.Accs[ai].Name)
		return m, true
	case "info-changed":
		ai := pickAcc()
		a := &r.Accs[ai]
		long := ""
		if rnd.Intn(3) == 0 { // long texts, around the default (64) and the largest (256) maximum length of strings
			n := []int{63, 64, 65, 100, 256, 257, 1000}[rnd.Intn(7)]
			long = strings.Repeat(" "+randWord(rnd), n/2+1)[:n-4]
		}
		switch rnd.Intn(4) {
		case 0:
			a.Serial = "SN" + strconv.Itoa(rnd.Intn(1e9)) + long
		case 1:
			a.Manufacturer = "maker " + strconv.Itoa(rnd.Intn(100)) + long
		case 2:
			a.Model = "model " + strconv.Itoa(rnd.Intn(100)) + long
		default:
			a.Firmware = fmt.Sprintf("%d.%d.%d", rnd.Intn(9), rnd.Intn(9), rnd.Intn(99))
		}
		m.Detail = fmt.Sprintf("accessory at position %d: serial/manufacturer/model/firmware now %q %q %q %q", ai, a.Serial, a.Manufacturer, a.Model, a.Firmware)
		return m, true
	case "value-presence":
		cand := liveChars(*r, func(c charRef) bool {
			return c.svc > 0 && hasPerm(c.c.Perms, "pr") && c.c.Format != characteristic.FormatTLV8 && c.c.Format != characteristic.FormatData
		})
		if len(cand) == 0 {
			return m, false
		}
		c := cand[rnd.Intn(len(cand))]
		p := r.patchFor(c.acc, c.svc, c.char)
		if c.c.Value != nil {
			p.ClearValue, p.HasValue, p.Value = true, false, nil
			m.Detail = fmt.Sprintf("accessory %d service %d characteristic %d (type %s): value %v removed (no value member)", c.acc, c.svc, c.char, c.c.Type, c.c.Value)
		} else {
			v := randValue(c.c.Format, c.c.MinValue, c.c.MaxValue, rnd)
			if v == nil {
				return m, false
			}
			p.ClearValue, p.HasValue, p.Value = false, true, v
			m.Detail = fmt.Sprintf("accessory %d service %d characteristic %d (type %s): value member appears (%v)", c.acc, c.svc, c.char, c.c.Type, v)
		}
		return m, true
	case "category-changed":
		var cand []int
		for ai, a := range r.Accs {
			if a.Kind == "custom" {
				cand = append(cand, ai)
			}
		}
		if len(cand) == 0 {
			return m, false
		}
		ai := cand[rnd.Intn(len(cand))]
		old := r.Accs[ai].Category
		r.Accs[ai].Category = 1 + (old+rnd.Intn(30))%36
		m.Detail = fmt.Sprintf("accessory at position %d: accessory category %d -> %d (not part of the attribute database)", ai, old, r.Accs[ai].Category)
		return m, true
	case "temp-param-changed":
		var th []int
		for ai, a := range r.Accs {
			if (a.Kind == "thermostat" || a.Kind == "sensor") && len(a.Params) == 4 {
				th = append(th, ai)
			}
		}
		if len(th) == 0 {
			return m, false
		}
		ai := th[rnd.Intn(len(th))]
		p := r.Accs[ai].Params
		old := p[0]
		p[0] = p[1] + float64(rnd.Intn(int(p[2]-p[1])+1))
		m.Detail = fmt.Sprintf("accessory at position %d: constructor temperature %v -> %v", ai, old, p[0])
		return m, true
	}
	return m, false
}

func kindsOf(ms []mutation, structural bool) string {
	set := map[string]bool{}
	for _, m := range ms {
		if m.Structural == structural {
			set[m.Kind] = true
		}
	}
	var ks []string
	for k := range set {
		ks = append(ks, k)
	}
	sort.Strings(ks)
	return strings.Join(ks, "+")
}

package main

// Setup codes (ValidatePin / NewIPTransport) and the setup URI (util.XHMURI) against an independent
// model and an independent decoder.

import (
	"fmt"
	"math/rand"
	"os"
	"sort"
	"strings"
	"sync"
	"sync/atomic"
	"unicode/utf8"

	"github.com/brutella/hc"
	"github.com/brutella/hc/accessory"
	"github.com/brutella/hc/util"

	"verif/harness/app"
	"verif/vf"
)

// ---------------------------------------------------------------- model of a valid setup code

// pinValid: exactly eight ASCII digits and not one of the twelve trivial codes.
func pinValid(s string) bool {
	if len(s) != 8 {
		return false
	}
	n := 0
	for i := 0; i < 8; i++ {
		if s[i] < '0' || s[i] > '9' {
			return false
		}
		n = n*10 + int(s[i]-'0')
	}
	return !trivialNumber(n)
}

func trivialNumber(n int) bool {
	return n%11111111 == 0 || n == 12345678 || n == 87654321
}

// formatOK checks XXX-XX-XXX without allocating.
func formatOK(got, s string) bool {
	return len(got) == 10 && got[0] == s[0] && got[1] == s[1] && got[2] == s[2] && got[3] == '-' && got[4] == s[3] && got[5] == s[4] &&
		got[6] == '-' && got[7] == s[5] && got[8] == s[6] && got[9] == s[7]
}

type pinTally struct {
	accepted, rejected int64
}

// checkCode checks one eight-digit code given as number; returns whether hc accepted it.
func checkCode(r *vf.Run, n int, buf *[8]byte, reported *int) bool {
	x := n
	for i := 7; i >= 0; i-- {
		buf[i] = byte('0' + x%10)
		x /= 10
	}
	s := string(buf[:])
	got, err := hc.ValidatePin(s)
	want := !trivialNumber(n)
	switch {
	case want && err != nil:
		if *reported < 5 {
			*reported++
			r.Violation("pin:rejected-valid", fmt.Sprintf("ValidatePin(%q) = error %v; the code has eight digits and is not trivial", s, err), map[string]interface{}{"code": s, "error": err.Error()})
		}
	case !want && err == nil:
		r.Violation("pin:accepted-invalid:trivial", fmt.Sprintf("ValidatePin(%q) accepted a trivial code (returned %q)", s, got), map[string]interface{}{"code": s, "returned": got})
	case want && !formatOK(got, s):
		if *reported < 5 {
			*reported++
			r.Violation("pin:format", fmt.Sprintf("ValidatePin(%q) = %q, want XXX-XX-XXX", s, got), map[string]interface{}{"code": s, "returned": got})
		}
	}
	return err == nil
}

type strCase struct {
	s     string
	class string
}

func digits(rnd *rand.Rand, n int) string {
	b := make([]byte, n)
	for i := range b {
		b[i] = byte('0' + rnd.Intn(10))
	}
	return string(b)
}

func withAt(s string, i int, repl string) string {
	return s[:i] + repl + s[i+1:]
}

const fullwidth = "０１２３４５６７８９"
const arabicIndic = "٠١٢٣٤٥٦٧٨٩"
const devanagari = "०१२३४५६७८९"
const mathBold = "𝟎𝟏𝟐𝟑𝟒𝟓𝟔𝟕𝟖𝟗"

func uniDigits(rnd *rand.Rand, alphabet string, n int) string {
	rs := []rune(alphabet)
	var b strings.Builder
	for i := 0; i < n; i++ {
		b.WriteRune(rs[rnd.Intn(10)])
	}
	return b.String()
}

// otherStrings generates strings that are not eight ASCII digits, by class.
func otherStrings(rnd *rand.Rand, n int) []strCase {
	out := []strCase{
		{"", "empty"}, {"123-45-678", "formatted"}, {"001-02-003", "formatted"}, {"+1234567", "sign"}, {"-1234567", "sign"}, {"+12345678", "sign"}, {"-12345678", "sign"},
		{" 1234567", "space"}, {"1234567 ", "space"}, {" 12345678", "space"}, {"12345678 ", "space"}, {"12345678\n", "space"}, {"1234 5678", "space"}, {"\t2345678", "space"},
		{"0x123456", "letter"}, {"1e234567", "letter"}, {"abcdefgh", "letter"}, {"1234567a", "letter"}, {"1234.678", "punctuation"}, {"1234,678", "punctuation"}, {"12345678.", "punctuation"},
		{"12345678\x00", "nul"}, {"\x0012345678", "nul"}, {"1234\x005678", "nul"}, {"\x00\x00\x00\x00\x00\x00\x00\x00", "nul"},
		{"１２３４５６７８", "unicode-digits-8-runes"}, {"٠١٢٣٤٥٦٧", "unicode-digits-8-runes"}, {"०१२३४५६७", "unicode-digits-8-runes"}, {"𝟏𝟐𝟑𝟒𝟓𝟔𝟕𝟖", "unicode-digits-8-runes"},
		{"1234567１", "8-runes-more-bytes"}, {"1234567é", "8-runes-more-bytes"}, {"１2345678"[0:3] + "2345678", "8-runes-more-bytes"},
		{"٠١٢٣", "8-bytes-fewer-runes"}, {"123456é", "8-bytes-fewer-runes"}, {"12345１", "8-bytes-fewer-runes"}, {"𝟏𝟐", "8-bytes-fewer-runes"}, {"１２12", "8-bytes-fewer-runes"}, {"ééée1"[0:8], "8-bytes-fewer-runes"},
		{"1234567", "length-7"}, {"123456789", "length-9"}, {"1111111", "length-7"}, {"111111111", "length-9"}, {"0000000", "length-7"}, {"000000000", "length-9"},
		{"1234567８", "8-runes-more-bytes"},
	}
	for _, t := range []string{"00000000", "11111111", "22222222", "33333333", "44444444", "55555555", "66666666", "77777777", "88888888", "99999999", "12345678", "87654321"} {
		out = append(out, strCase{t, "trivial"})
		out = append(out, strCase{t[:3] + "-" + t[3:5] + "-" + t[5:], "formatted"})
	}
	for len(out) < n {
		switch rnd.Intn(12) {
		case 0:
			l := rnd.Intn(13)
			if l == 8 {
				l = 7 + 2*rnd.Intn(2)
			}
			out = append(out, strCase{digits(rnd, l), fmt.Sprintf("length-%d", l)})
		case 1:
			d := digits(rnd, 8)
			out = append(out, strCase{d[:3] + "-" + d[3:5] + "-" + d[5:], "formatted"})
		case 2:
			out = append(out, strCase{withAt(digits(rnd, 8), rnd.Intn(8), string("+- \t\n\r"[rnd.Intn(6)])), "sign-or-space-inside"})
		case 3:
			out = append(out, strCase{withAt(digits(rnd, 8), rnd.Intn(8), string(rune('a'+rnd.Intn(26)))), "letter"})
		case 4:
			out = append(out, strCase{withAt(digits(rnd, 8), rnd.Intn(8), string("/:"[rnd.Intn(2)])), "byte-adjacent-to-digits"})
		case 5:
			out = append(out, strCase{withAt(digits(rnd, 8), rnd.Intn(8), "\x00"), "nul"})
		case 6:
			out = append(out, strCase{withAt(digits(rnd, 8), rnd.Intn(8), string([]byte{byte(0x80 + rnd.Intn(0x80))})), "high-byte"})
		case 7:
			out = append(out, strCase{uniDigits(rnd, []string{fullwidth, arabicIndic, devanagari, mathBold}[rnd.Intn(4)], 8), "unicode-digits-8-runes"})
		case 8:
			// 8 runes, more than 8 bytes: k ASCII digits and 8-k non-ASCII digits
			d := []rune(digits(rnd, 8))
			al := []rune([]string{fullwidth, arabicIndic, devanagari, mathBold}[rnd.Intn(4)])
			for j, k := 0, 1+rnd.Intn(3); j < k; j++ {
				d[rnd.Intn(8)] = al[rnd.Intn(10)]
			}
			out = append(out, strCase{string(d), "8-runes-more-bytes"})
		case 9:
			// exactly 8 bytes, fewer than 8 runes
			var s string
			switch rnd.Intn(4) {
			case 0:
				s = uniDigits(rnd, arabicIndic, 4)
			case 1:
				s = uniDigits(rnd, mathBold, 2)
			case 2:
				s = digits(rnd, 5) + uniDigits(rnd, fullwidth, 1)
			default:
				s = digits(rnd, 2) + uniDigits(rnd, devanagari, 2)
			}
			if len(s) == 8 && utf8.RuneCountInString(s) < 8 {
				out = append(out, strCase{s, "8-bytes-fewer-runes"})
			}
		case 10:
			b := make([]byte, rnd.Intn(13))
			rnd.Read(b)
			if !pinValid(string(b)) {
				out = append(out, strCase{string(b), "random-bytes"})
			}
		default:
			d := digits(rnd, 8)
			out = append(out, strCase{[]string{" " + d, d + " ", "+" + d, "-" + d, d + "\x00", d + "\n", "0" + d, d + "0"}[rnd.Intn(8)], "valid-code-with-extra-char"})
		}
	}
	return out
}

func setupCodes(r *vf.Run) {
	rnd := r.Rand("c20-codes")
	// ---- the code space
	var accepted, total int64
	if r.Thorough() {
		const workers = 16
		const N = 100000000
		var wg sync.WaitGroup
		for w := 0; w < workers; w++ {
			wg.Add(1)
			go func(w int) {
				defer wg.Done()
				var buf [8]byte
				rep := 0
				acc := int64(0)
				lo, hi := N/workers*w, N/workers*(w+1)
				for n := lo; n < hi; n++ {
					if checkCode(r, n, &buf, &rep) {
						acc++
					}
				}
				atomic.AddInt64(&accepted, acc)
				atomic.AddInt64(&total, int64(hi-lo))
			}(w)
		}
		wg.Wait()
		r.SetExhaustive(true)
		r.Extra("setup_code_space", "all 10^8 eight-digit codes")
	} else {
		var buf [8]byte
		rep := 0
		n := 1000000
		var special []int
		for _, t := range []int{0, 11111111, 22222222, 33333333, 44444444, 55555555, 66666666, 77777777, 88888888, 99999999, 12345678, 87654321, 102003} {
			for _, d := range []int{0, 1, -1, 10, -10, 1000, -1000, 10000000, -10000000} {
				if x := t + d; x >= 0 && x < 100000000 {
					special = append(special, x)
				}
			}
		}
		for i := 0; i < n; i++ {
			x := rnd.Intn(100000000)
			if i < len(special) {
				x = special[i]
			}
			if checkCode(r, x, &buf, &rep) {
				accepted++
			}
			total++
		}
		r.Extra("setup_code_space", "10^6 sampled eight-digit codes incl. all trivial codes and their neighbours")
	}
	r.Count("codes_checked", int(total))
	r.Count("codes_accepted", int(accepted))
	r.Evals(int(total))

	// ---- everything that is not an eight-digit code
	others := otherStrings(rnd, 20000)
	classes := map[string]int{}
	for i, c := range others {
		var got string
		var err error
		panicked, text := vf.Recover(func() { got, err = hc.ValidatePin(c.s) })
		want := pinValid(c.s)
		classes[c.class]++
		r.Distinct("non_code_string_class", c.class)
		switch {
		case panicked:
			r.Violation("pin:panics:"+c.class, fmt.Sprintf("ValidatePin(%q) panicked; %d bytes, %d runes", c.s, len(c.s), utf8.RuneCountInString(c.s)),
				map[string]interface{}{"string": c.s, "bytes": vf.Hex([]byte(c.s)), "class": c.class, "panic": text})
		case !want && err == nil:
			r.Violation("pin:accepted-invalid:"+c.class, fmt.Sprintf("ValidatePin(%q) accepted (returned %q); %d bytes, %d runes", c.s, got, len(c.s), utf8.RuneCountInString(c.s)),
				map[string]interface{}{"string": c.s, "bytes": vf.Hex([]byte(c.s)), "returned": got, "class": c.class})
		case want && err != nil:
			r.Violation("pin:rejected-valid", fmt.Sprintf("ValidatePin(%q) = %v", c.s, err), map[string]interface{}{"string": c.s})
		}
		r.Eval()
		if i < 60 || i%400 == 0 {
			r.Nontrivial("pinstr:" + c.s)
		}
	}
	r.Count("non_code_strings_checked", len(others))
	var cl []string
	for k, v := range classes {
		cl = append(cl, fmt.Sprintf("%s=%d", k, v))
	}
	sort.Strings(cl)
	r.Extra("non_code_string_classes", cl)

	// ---- NewIPTransport refuses what ValidatePin must refuse (sample; "" means default code and is skipped)
	dir := app.ScratchDir(base, "pins")
	defer os.RemoveAll(dir)
	seen := map[string]int{}
	for _, c := range others {
		if c.s == "" || seen[c.class] >= 8 {
			continue
		}
		seen[c.class]++
		var t interface{}
		var err error
		panicked, text := vf.Recover(func() {
			t, err = hc.NewIPTransport(hc.Config{StoragePath: dir, Pin: c.s}, accessory.NewSwitch(accessory.Info{Name: "Pins"}).Accessory)
		})
		_ = t
		switch {
		case panicked:
			r.Violation("pin:transport-panics:"+c.class, fmt.Sprintf("NewIPTransport with Pin %q panicked", c.s), map[string]interface{}{"string": c.s, "panic": text})
		case err == nil:
			r.Violation("pin:transport-accepted-invalid:"+c.class, fmt.Sprintf("NewIPTransport accepted the setup code %q", c.s), map[string]interface{}{"string": c.s, "bytes": vf.Hex([]byte(c.s)), "class": c.class})
		default:
			r.Count("transports_refused_for_invalid_code", 1)
		}
		r.Eval()
	}
}

// ---------------------------------------------------------------- setup URI

type xhm struct {
	Payload  uint64
	Code     uint32
	Flags    uint8
	Category uint8
	Reserved uint8
	Version  uint8
	SetupID  string
}

// decodeXHM decodes a setup URI per the HAP layout (from the least significant bit: 27 bits setup code,
// 4 bits flags, 8 bits category, 4 bits reserved, 3 bits version; 9 base-36 upper-case digits), followed
// by the setup id of idLen characters (idLen < 0: whatever follows).
func decodeXHM(u string, idLen int) (xhm, error) {
	var d xhm
	if !strings.HasPrefix(u, "X-HM://") {
		return d, fmt.Errorf("does not start with X-HM://")
	}
	rest := u[len("X-HM://"):]
	if len(rest) < 9 {
		return d, fmt.Errorf("%d characters after the scheme, want 9 + setup id", len(rest))
	}
	if idLen >= 0 && len(rest) != 9+idLen {
		return d, fmt.Errorf("%d characters after the scheme, want 9 + %d", len(rest), idLen)
	}
	var v uint64
	for i := 0; i < 9; i++ {
		c := rest[i]
		var x uint64
		switch {
		case c >= '0' && c <= '9':
			x = uint64(c - '0')
		case c >= 'A' && c <= 'Z':
			x = uint64(c-'A') + 10
		default:
			return d, fmt.Errorf("payload character %q is not an upper-case base-36 digit", c)
		}
		v = v*36 + x
	}
	if v>>46 != 0 {
		return d, fmt.Errorf("payload %d exceeds 46 bits", v)
	}
	d.Payload = v
	d.Code = uint32(v & (1<<27 - 1))
	d.Flags = uint8(v >> 27 & 0xf)
	d.Category = uint8(v >> 31 & 0xff)
	d.Reserved = uint8(v >> 39 & 0xf)
	d.Version = uint8(v >> 43 & 0x7)
	d.SetupID = rest[9:]
	return d, nil
}

var singleFlags = []util.SetupFlag{util.SetupFlagNFC, util.SetupFlagIP, util.SetupFlagBTLE, util.SetupFlagIPWAC}

func flagList(set uint8, form int) []util.SetupFlag {
	var l []util.SetupFlag
	switch form {
	case 1: // one merged value
		return []util.SetupFlag{util.SetupFlag(set)}
	case 2: // descending, first one twice
		for i := 3; i >= 0; i-- {
			if set&(1<<uint(i)) != 0 {
				l = append(l, singleFlags[i])
			}
		}
		if len(l) > 0 {
			l = append(l, l[0])
		}
		return l
	case 3: // with the explicit "none"
		l = append(l, util.SetupFlagNone)
	}
	for i := 0; i < 4; i++ {
		if set&(1<<uint(i)) != 0 {
			l = append(l, singleFlags[i])
		}
	}
	return l
}

type uriRep struct{ n int }

// checkURI checks one (code, setup id, category, flag set).
func checkURI(r *vf.Run, code int, pin string, setupID string, cat uint8, set uint8, form int, rep *uriRep) {
	u, err := util.XHMURI(pin, setupID, cat, flagList(set, form))
	w := func() map[string]interface{} {
		return map[string]interface{}{"setup_code": pin, "setup_id": setupID, "category": cat, "flags": set, "flag_list_form": form, "uri": u}
	}
	if err != nil {
		if rep.n < 20 {
			rep.n++
			r.Violation("uri:error", fmt.Sprintf("XHMURI(%q,%q,%d,%v) failed: %v", pin, setupID, cat, set, err), w())
		}
		return
	}
	d, derr := decodeXHM(u, len(setupID))
	if derr != nil {
		if rep.n < 20 {
			rep.n++
			r.Violation("uri:shape", fmt.Sprintf("XHMURI(%q,%q,%d,%v) = %q: %v", pin, setupID, cat, set, u, derr), w())
		}
		return
	}
	field := ""
	switch {
	case int(d.Code) != code:
		field = "code"
	case d.Flags != set:
		field = "flags"
	case d.Category != cat:
		field = "category"
	case d.Reserved != 0:
		field = "reserved"
	case d.Version != 0:
		field = "version"
	case d.SetupID != setupID:
		field = "setup-id"
	}
	if field != "" && rep.n < 20 {
		rep.n++
		ww := w()
		ww["decoded"] = d
		r.Violation("uri:decode-mismatch:"+field, fmt.Sprintf("XHMURI(%q,%q,category %d,flags %d) = %q decodes to code %08d flags %d category %d reserved %d version %d setup id %q",
			pin, setupID, cat, set, u, d.Code, d.Flags, d.Category, d.Reserved, d.Version, d.SetupID), ww)
	}
}

func pinText(n int, formatted bool) string {
	s := fmt.Sprintf("%08d", n)
	if formatted {
		return s[:3] + "-" + s[3:5] + "-" + s[5:]
	}
	return s
}

func setupURIs(r *vf.Run) {
	rnd := r.Rand("c20-uri")
	rep := &uriRep{}
	var n int64
	// all categories x all flag sets x sampled codes
	ncodes := r.Pick(40, 2000)
	codes := []int{0, 1, 99999999, 99999998, 102003, 12345678, 67108863, 67108864, 67108865, 33554432, 134217727 % 100000000, 50000000}
	for len(codes) < ncodes {
		codes = append(codes, rnd.Intn(100000000))
	}
	for _, code := range codes[:ncodes] {
		id := randomSetupID(rnd)
		formatted := rnd.Intn(4) == 0
		pin := pinText(code, formatted)
		for cat := 0; cat < 256; cat++ {
			for set := 0; set < 16; set++ {
				checkURI(r, code, pin, id, uint8(cat), uint8(set), (cat+set)%4, rep)
				n++
			}
		}
	}
	for cat := 0; cat < 256; cat++ {
		for set := 0; set < 16; set++ {
			r.Nontrivial(fmt.Sprintf("uri:cat=%d:flags=%d", cat, set))
		}
	}
	r.Distinct("uri_categories", "all 256")
	// sampled (code, category, flags, setup id)
	ns := r.Pick(200000, 2000000)
	for i := 0; i < ns; i++ {
		code := rnd.Intn(100000000)
		checkURI(r, code, pinText(code, i%5 == 0), randomSetupID(rnd), uint8(rnd.Intn(256)), uint8(rnd.Intn(16)), rnd.Intn(4), rep)
		n++
	}
	// all setup-id characters at all positions
	for pos := 0; pos < 4; pos++ {
		for _, ch := range setupIDAlphabet {
			id := []byte("0000")
			id[pos] = byte(ch)
			code := rnd.Intn(100000000)
			checkURI(r, code, pinText(code, false), string(id), uint8(rnd.Intn(256)), uint8(rnd.Intn(16)), 0, rep)
			n++
		}
	}
	if r.Thorough() {
		// every code for one (category, flag set, setup id)
		cat, set, id := uint8(rnd.Intn(256)), uint8(rnd.Intn(16)), randomSetupID(rnd)
		r.Extra("uri_exhaustive_codes_for", fmt.Sprintf("category %d flags %d setup id %s", cat, set, id))
		const workers = 16
		const N = 100000000
		var wg sync.WaitGroup
		for w := 0; w < workers; w++ {
			wg.Add(1)
			go func(w int) {
				defer wg.Done()
				lrep := &uriRep{}
				var buf [8]byte
				fl := flagList(set, 0)
				for code := N / workers * w; code < N/workers*(w+1); code++ {
					x := code
					for i := 7; i >= 0; i-- {
						buf[i] = byte('0' + x%10)
						x /= 10
					}
					pin := string(buf[:])
					u, err := util.XHMURI(pin, id, cat, fl)
					if err == nil {
						if d, derr := decodeXHM(u, 4); derr == nil && int(d.Code) == code && d.Flags == set && d.Category == cat && d.Reserved == 0 && d.Version == 0 && d.SetupID == id {
							continue
						}
					}
					checkURI(r, code, pin, id, cat, set, 0, lrep) // reports the precise failure
				}
			}(w)
		}
		wg.Wait()
		n += N
	}
	r.Count("uris_decoded", int(n))
	r.Evals(int(n))
}

package main

import (
	"fmt"
	"math/rand"
	"os"
	"sync"
	"sync/atomic"
	"time"

	"github.com/brutella/hc/accessory"
	"github.com/brutella/hc/verifhook"

	"verif/harness/app"
	"verif/refctl"
	"verif/vf"
)

// simultaneous: pairing changes that arrive on DIFFERENT connections at the same time.  Each change makes the accessory
// recompute and announce its discoverability (the announcement itself takes about a second, during which the second
// change arrives).  Whatever the overlap, once every request has been answered the flag must say what the storage says:
// sf == 1 exactly when no controller is stored.
//
//	cross-remove   A and B are stored; A removes B on its connection while B removes A on another: nobody is left, sf = 1
//	remove+pair    A is stored; A removes itself while a new controller completes pair-setup on another connection:
//	               the new controller is stored, sf = 0
//	remove-both    A, B, C are stored; A removes B while C removes A, then the last one removes itself: sf = 1
//
// The requests of one scenario are released together by a barrier after all connections are verified / pair-setup has
// reached its last message; with a stagger of 0..600 ms between them in some scenarios (the second one lands in the
// middle of the first announcement, or - with the storage reads of the accessory slowed down through the hook point
// storage.get.done - between the moment the first handler has read the pairings and the moment it stores its conclusion).

func simultaneous(r *vf.Run) {
	n := r.Pick(64, 320)
	// the accessory's reads of its storage take their time (0..40 ms each, drawn from a fixed sequence): a handler that
	// has read the pairings is overtaken by the handler of a later change before it stores what it concluded
	var reads int64
	verifhook.Install(func(point string) {
		if point == "storage.get.done" {
			k := atomic.AddInt64(&reads, 1)
			time.Sleep(time.Duration(rand.New(rand.NewSource(r.Seed*7919+k)).Intn(40)) * time.Millisecond)
		}
	})
	defer func() {
		verifhook.Install(func(string) {})
		r.Count("simultaneous_storage_reads_delayed", int(atomic.LoadInt64(&reads)))
	}()
	type res struct {
		name, sig, what string
		wit             map[string]interface{}
		incon           string
	}
	out := make(chan res, n)
	sem := make(chan struct{}, 16)
	var wg sync.WaitGroup
	for i := 0; i < n; i++ {
		wg.Add(1)
		sem <- struct{}{}
		go func(i int) {
			defer wg.Done()
			defer func() { <-sem }()
			rnd := r.RandN("c20-simultaneous", i)
			kind := []string{"cross-remove", "remove+pair", "cross-remove", "remove-both"}[i%4]
			stagger := time.Duration([]int{0, 20, 60, 150, 400, 600}[(i/4)%6]) * time.Millisecond
			if kind == "cross-remove" && i%8 != 0 {
				stagger = time.Duration(rnd.Intn(80)) * time.Millisecond
			}
			rs := res{name: fmt.Sprintf("%s/stagger %v", kind, stagger.Round(50*time.Millisecond))}
			defer func() { out <- rs }()
			dir := app.ScratchDir(base, "simul")
			defer os.RemoveAll(dir)
			ids := []*refctl.Identity{refctl.NewIdentity(fmt.Sprintf("sim-a-%d", i), rnd), refctl.NewIdentity(fmt.Sprintf("sim-b-%d", i), rnd), refctl.NewIdentity(fmt.Sprintf("sim-c-%d", i), rnd)}
			nStored := map[string]int{"cross-remove": 2, "remove+pair": 1, "remove-both": 3}[kind]
			for _, id := range ids[:nStored] {
				app.StoreController(dir, id)
			}
			pin := fmt.Sprintf("%08d", 10000000+rnd.Intn(80000000))
			if pin == "12345678" || pin == "87654321" {
				pin = "10203040"
			}
			a, err := app.Start(dir, pin, accessory.NewSwitch(accessory.Info{Name: fmt.Sprintf("C20 S%d", i)}).Accessory)
			if err != nil {
				rs.incon = "transport: " + err.Error()
				return
			}
			defer a.Stop()
			if sf := a.TXT()["sf"]; sf != "0" {
				rs.sig, rs.what = "sf:paired-but-discoverable:at-start", fmt.Sprintf("%d controllers stored, sf=%q at start", nStored, sf)
				return
			}
			verified := func(id *refctl.Identity) *refctl.Conn {
				c, err := a.Verified(id, nil, "")
				if err != nil {
					rs.incon = "pair-verify of a stored controller: " + err.Error()
					return nil
				}
				c.Timeout = 30 * time.Second
				return c
			}
			type job struct {
				delay time.Duration
				f     func() error
			}
			var jobs []job
			var closers []*refctl.Conn
			defer func() {
				for _, c := range closers {
					c.Close()
				}
			}()
			remove := func(by, whom *refctl.Identity, d time.Duration) bool {
				c := verified(by)
				if c == nil {
					return false
				}
				closers = append(closers, c)
				jobs = append(jobs, job{d, func() error {
					m, _, err := c.PostTLV("/pairings", refctl.PairingsRemove(whom.ID))
					if err != nil {
						return err
					}
					if m.Status != 200 {
						return fmt.Errorf("remove answered %d", m.Status)
					}
					return nil
				}})
				return true
			}
			wantStored := 0
			switch kind {
			case "cross-remove":
				if !remove(ids[0], ids[1], 0) || !remove(ids[1], ids[0], stagger) {
					return
				}
			case "remove+pair":
				// the new controller runs pair-setup up to its last message, which is released together with the removal
				c, err := refctl.Dial(a.Addr)
				if err != nil {
					rs.incon = "dial: " + err.Error()
					return
				}
				c.Timeout = 30 * time.Second
				closers = append(closers, c)
				s, err := c.StartSetup(ids[1], a.Code(), nil)
				if err == nil {
					err = c.SetupVerify(s)
				}
				if err != nil {
					rs.incon = "pair-setup of the new controller: " + err.Error()
					return
				}
				first, second := stagger, time.Duration(0)
				if (i/15)%2 == 1 {
					first, second = 0, stagger
				}
				jobs = append(jobs, job{first, func() error { return c.SetupExchange(s) }})
				if !remove(ids[0], ids[0], second) {
					return
				}
				wantStored = 1
			case "remove-both":
				if !remove(ids[0], ids[1], 0) || !remove(ids[2], ids[0], stagger) {
					return
				}
				wantStored = 1
			}
			start := make(chan struct{})
			errs := make(chan error, len(jobs))
			for _, j := range jobs {
				go func(j job) {
					<-start
					time.Sleep(j.delay)
					errs <- j.f()
				}(j)
			}
			close(start)
			for range jobs {
				if err := <-errs; err != nil {
					rs.incon = "a pairing change was not carried out: " + err.Error()
					return
				}
			}
			if kind == "remove-both" { // the last one leaves too, alone
				c := verified(ids[2])
				if c == nil {
					return
				}
				closers = append(closers, c)
				if m, _, err := c.PostTLV("/pairings", refctl.PairingsRemove(ids[2].ID)); err != nil || m.Status != 200 {
					rs.incon = fmt.Sprintf("last removal: %v", err)
					return
				}
				wantStored = 0
			}
			ctrls, err := app.Controllers(dir)
			if err != nil {
				rs.incon = "stored controllers: " + err.Error()
				return
			}
			if len(ctrls) != wantStored {
				rs.incon = fmt.Sprintf("%d controllers stored after the scenario, the scenario expects %d", len(ctrls), wantStored)
				return
			}
			sf := a.TXT()["sf"]
			want := "0"
			if wantStored == 0 {
				want = "1"
			}
			rs.wit = map[string]interface{}{"scenario": kind, "stagger": stagger.String(), "controllers_stored_afterwards": len(ctrls), "sf": sf}
			if sf != want {
				if want == "1" {
					rs.sig = "sf:unpaired-but-hidden:simultaneous-changes"
				} else {
					rs.sig = "sf:paired-but-discoverable:simultaneous-changes"
				}
				rs.what = fmt.Sprintf("%s (second change %v after the first, on another connection): every request was answered, %d controllers are stored, and the accessory advertises sf=%q", kind, stagger, len(ctrls), sf)
			}
		}(i)
	}
	wg.Wait()
	close(out)
	for rs := range out {
		r.Eval()
		switch {
		case rs.incon != "":
			r.Count("simultaneous_scenarios_not_completed", 1)
			r.Extra("simultaneous_not_completed_last", rs.name+": "+rs.incon)
		case rs.sig != "":
			r.Violation(rs.sig, rs.what, rs.wit)
		default:
			r.Count("simultaneous_scenarios_flag_right", 1)
			r.Distinct("simultaneous_scenario", rs.name)
			r.Nontrivial("simultaneous/" + rs.name)
		}
	}
	r.Floor("simultaneous_scenarios_flag_right", int(r.Counter("simultaneous_scenarios_flag_right"))+1000*r.ViolationCount(), n*3/4)
}

package main

// Part 4: structure sweep.  The restart histories of part 1 exercise a few hundred attribute databases with
// a real transport each; what is stored between runs (the fingerprint of the structure, the configuration
// number, the device id) however is a function of the *content* of that database, and a defect that depends
// on the stored bytes (a fingerprint that ends in a line feed, starts with a NUL, contains a quote, ...)
// shows on one structure in a few hundred only.  The sweep therefore runs thousands of small, distinct
// structures through the cheapest possible restart history: NewIPTransport on one directory without Start
// (identity, fingerprint and configuration number are loaded, compared and saved by the constructor),
//
//	run 1  structure S         c# = v1
//	run 2  structure S         c# = v1          (no change)
//	run 3  structure S, other values            c# = v1
//	run 4  structure S'        c# = v1 + 1      (one structural change)
//	run 5  structure S'        c# = v1 + 1
//	run 6  structure S         c# = v1 + 2      (changed back: a change again)
//
// with the device id constant throughout.  Observed at the version / uuid files and the advertised c#.

import (
	"bytes"
	"context"
	"encoding/json"
	"fmt"
	"os"
	"os/exec"
	"path/filepath"
	"runtime"
	"strconv"
	"sync"
	"sync/atomic"
	"syscall"
	"time"

	"github.com/brutella/hc"
	"github.com/brutella/hc/accessory"
	"github.com/brutella/hc/characteristic"
	"github.com/brutella/hc/db"
	"github.com/brutella/hc/verifhook"

	"verif/harness/app"
	"verif/vf"
)

type sweepSpec struct {
	N     int    `json:"structure"`
	Desc  string `json:"description_of_first_characteristic"`
	Extra int    `json:"extra_characteristics"`
	Kind  int    `json:"accessory_kind"`
}

func sweepAccessory(s sweepSpec, variant bool, values int) *accessory.Accessory {
	info := accessory.Info{Name: "sweep", SerialNumber: "1", Manufacturer: "m", Model: "x"}
	var a *accessory.Accessory
	var first *characteristic.Characteristic
	switch s.Kind % 3 {
	case 0:
		x := accessory.NewSwitch(info)
		x.Switch.On.SetValue(values%2 == 1)
		a, first = x.Accessory, x.Switch.On.Characteristic
	case 1:
		x := accessory.NewLightbulb(info)
		x.Lightbulb.On.SetValue(values%2 == 1)
		a, first = x.Accessory, x.Lightbulb.On.Characteristic
	default:
		x := accessory.NewOutlet(info)
		x.Outlet.On.SetValue(values%2 == 1)
		a, first = x.Accessory, x.Outlet.On.Characteristic
	}
	first.Description = s.Desc
	svc := a.Services[len(a.Services)-1]
	for i := 0; i < s.Extra; i++ {
		c := characteristic.NewBrightness()
		c.SetValue((values*7 + i) % 101)
		svc.AddCharacteristic(c.Characteristic)
	}
	if variant { // S': one more characteristic
		c := characteristic.NewHue()
		c.SetValue(float64(values % 360))
		svc.AddCharacteristic(c.Characteristic)
	}
	return a
}

type sweepObs struct {
	Run     int    `json:"run"`
	Version string `json:"version_file"`
	UUID    string `json:"uuid_file"`
	TXTc    string `json:"txt_c#"`
	TXTid   string `json:"txt_id"`
	Err     string `json:"error,omitempty"`
}

func sweepOne(s sweepSpec) (obs []sweepObs, sig, what string) {
	dir := app.ScratchDir(base, "sweep")
	defer os.RemoveAll(dir)
	type txter interface{ VerifTXT() map[string]string }
	plan := []struct {
		variant bool
		values  int
	}{{false, 0}, {false, 0}, {false, 1}, {true, 1}, {true, 2}, {false, 3}}
	for i, p := range plan {
		o := sweepObs{Run: i + 1}
		var t interface{}
		var err error
		_, pt := vf.Recover(func() {
			t, err = hc.NewIPTransport(hc.Config{StoragePath: dir, Pin: "00102003", Port: "0"}, sweepAccessory(s, p.variant, p.values))
		})
		if pt != "" {
			return append(obs, o), "sweep:transport-constructor-panics", fmt.Sprintf("run %d: NewIPTransport panics: %s", i+1, trimTo(pt, 300))
		}
		if err != nil {
			o.Err = err.Error()
			return append(obs, o), "sweep:transport-constructor-fails", fmt.Sprintf("run %d: NewIPTransport fails: %v", i+1, err)
		}
		o.Version, o.UUID = readFile(dir, "version"), readFile(dir, "uuid")
		if x, ok := t.(txter); ok {
			txt := x.VerifTXT()
			o.TXTc, o.TXTid = txt["c#"], txt["id"]
		}
		obs = append(obs, o)
	}
	v1, err := strconv.ParseInt(obs[0].Version, 10, 64)
	if err != nil {
		return obs, "sweep:version-not-a-number", fmt.Sprintf("version file after the first run is %q", obs[0].Version)
	}
	want := []int64{v1, v1, v1, v1 + 1, v1 + 1, v1 + 2}
	why := []string{"first run", "restart, nothing changed", "restart, only values changed", "restart, one characteristic added", "restart, nothing changed", "restart, the characteristic removed again"}
	for i, o := range obs {
		if o.UUID != obs[0].UUID || o.TXTid != obs[0].TXTid || o.UUID == "" || o.UUID == "<missing>" {
			return obs, "sweep:device-id-changes", fmt.Sprintf("run %d: device id %q / advertised %q, first run %q / %q", i+1, o.UUID, o.TXTid, obs[0].UUID, obs[0].TXTid)
		}
		if o.Version != strconv.FormatInt(want[i], 10) || o.TXTc != o.Version {
			kind := "sweep:c#-not-bumped"
			if got, e := strconv.ParseInt(o.Version, 10, 64); e != nil || got > want[i] || o.TXTc != o.Version {
				kind = "sweep:c#-bumped-without-structural-change"
				if i == 3 || i == 5 {
					kind = "sweep:c#-wrong"
				}
			}
			return obs, kind, fmt.Sprintf("run %d (%s): c# stored %q advertised %q, expected %d", i+1, why[i], o.Version, o.TXTc, want[i])
		}
	}
	return obs, "", ""
}

func trimTo(s string, n int) string {
	if len(s) > n {
		return s[:n]
	}
	return s
}

func structureSweep(r *vf.Run) {
	n := r.Pick(3000, 60000)
	var done, bumps int64
	var wg sync.WaitGroup
	ch := make(chan sweepSpec)
	for w := 0; w < 16; w++ {
		wg.Add(1)
		go func() {
			defer wg.Done()
			for s := range ch {
				obs, sig, what := sweepOne(s)
				r.Eval()
				if sig != "" {
					r.Violation(sig, fmt.Sprintf("structure %d (description %q, %d extra characteristics): %s", s.N, s.Desc, s.Extra, what),
						map[string]interface{}{"structure": s, "runs": obs})
					continue
				}
				atomic.AddInt64(&done, 1)
				atomic.AddInt64(&bumps, 2)
			}
		}()
	}
	rnd := r.RandN("c20-sweep", 0)
	salt := rnd.Intn(1 << 30)
	for i := 0; i < n; i++ {
		s := sweepSpec{N: i, Desc: fmt.Sprintf("relay %d/%d", salt, i), Extra: i % 3, Kind: i}
		r.SampleAt(i, func() interface{} { return s })
		ch <- s
	}
	close(ch)
	wg.Wait()
	r.Count("sweep_structures_completed", int(done))
	r.Count("sweep_restarts_without_bump", int(done)*3)
	r.Count("sweep_bumps_observed", int(bumps))
	r.Floor("sweep_structures_completed", int(done), n*99/100)
}

// ---------------------------------------------------------------- killed starts
//
// A start that is killed while it stores identity, configuration number and fingerprint is part of real restart
// histories.  The kill is produced in a child process at the storage.set.enter hook point (the process sends
// itself SIGKILL before the N-th write of the start), for every N the start has.  What the next complete
// start must achieve is judged in the direction that matters to controllers and leaves the implementation
// its freedom: after (complete start with S, killed start with S', complete start with S') the
// configuration number is larger than it was with S (by one, or by two when the kill separated the number
// from the fingerprint) and then stays; after a killed start with the unchanged S it has not moved; the
// device id never changes.

type killSpec struct {
	Dir     string    `json:"dir"`
	Spec    sweepSpec `json:"structure"`
	Variant bool      `json:"variant"`
	KillAt  int       `json:"kill_before_write"`
	// KillAtRename > 0: the child runs under strace and is killed when it makes its N-th rename(2) call, i.e. INSIDE a
	// storage write, after the new content was written somewhere and before it is in place (KillAt is 0 then)
	KillAtRename int `json:"kill_at_rename,omitempty"`
}

func killChildMain(arg string) {
	runtime.LockOSThread() // (strace counts system calls per thread)
	var ks killSpec
	b, err := os.ReadFile(arg)
	if err == nil {
		err = json.Unmarshal(b, &ks)
	}
	if err != nil {
		fmt.Println("killchild:", err)
		os.Exit(3)
	}
	var n int32
	verifhook.Install(func(point string) {
		if point == "storage.set.enter" && int(atomic.AddInt32(&n, 1)) == ks.KillAt {
			syscall.Kill(os.Getpid(), syscall.SIGKILL)
			select {}
		}
	})
	_, err = hc.NewIPTransport(hc.Config{StoragePath: ks.Dir, Pin: "00102003", Port: "0"}, sweepAccessory(ks.Spec, ks.Variant, 5))
	if err != nil {
		fmt.Println("killchild: NewIPTransport:", err)
		os.Exit(4)
	}
	fmt.Printf("completed writes=%d\n", atomic.LoadInt32(&n))
	os.Exit(0)
}

// killedStart returns "killed", "completed" (the start has fewer writes than KillAt) or an error text.
func killedStart(ks killSpec, tag string) string {
	bin := os.Getenv("VERIF_BIN")
	if bin == "" {
		bin = os.Args[0]
	}
	f := filepath.Join(base, "kill-"+tag+".json")
	b, _ := json.Marshal(ks)
	os.WriteFile(f, b, 0o644)
	defer os.Remove(f)
	ctx, cancel := context.WithTimeout(context.Background(), 2*time.Minute)
	defer cancel()
	cmd := exec.CommandContext(ctx, bin, "-killchild", f)
	if ks.KillAtRename > 0 {
		calls := "rename,renameat,renameat2"
		cmd = exec.CommandContext(ctx, "strace", "-f", "-qq", "-o", "/dev/null", "-e", "trace="+calls, "-e", fmt.Sprintf("inject=%s:signal=SIGKILL:when=%d", calls, ks.KillAtRename), bin, "-killchild", f)
	}
	out, err := cmd.CombinedOutput()
	if err == nil {
		return "completed"
	}
	if ee, ok := err.(*exec.ExitError); ok {
		if ws, ok := ee.Sys().(syscall.WaitStatus); ok && ctx.Err() == nil && ((ws.Signaled() && ws.Signal() == syscall.SIGKILL) || (ks.KillAtRename > 0 && ws.ExitStatus() == 137)) {
			return "killed"
		}
	}
	return fmt.Sprintf("child failed: %v: %s", err, trimTo(string(out), 300))
}

func completeStart(dir string, s sweepSpec, variant bool, values int) (version, uuid string, err error) {
	_, pt := vf.Recover(func() {
		_, err = hc.NewIPTransport(hc.Config{StoragePath: dir, Pin: "00102003", Port: "0"}, sweepAccessory(s, variant, values))
	})
	if pt != "" {
		return "", "", fmt.Errorf("NewIPTransport panics: %s", trimTo(pt, 300))
	}
	return readFile(dir, "version"), readFile(dir, "uuid"), err
}

func killedStarts(r *vf.Run) {
	n := r.Pick(24, 400)
	rnd := r.RandN("c20-kill", 0)
	salt := rnd.Intn(1 << 30)
	type job struct {
		s       sweepSpec
		changed bool
		killAt  int
		first   bool // the very FIRST start on an empty directory is the one that is killed
		rename  bool // killAt counts rename(2) calls (a kill inside a storage write) instead of storage writes
	}
	var jobs []job
	for i := 0; i < n; i++ {
		s := sweepSpec{N: i, Desc: fmt.Sprintf("kill %d/%d", salt, i), Extra: i % 3, Kind: i}
		for k := 1; k <= 4; k++ {
			jobs = append(jobs, job{s, true, k, false, false})
			if i%4 == 0 {
				jobs = append(jobs, job{s, false, k, false, false})
			}
			if i%4 == 1 {
				jobs = append(jobs, job{s, false, k, true, false})
			}
			if i%4 == 2 && k <= 3 {
				jobs = append(jobs, job{s, true, k, false, true})
			}
		}
	}
	var wg sync.WaitGroup
	ch := make(chan int)
	for w := 0; w < 16; w++ {
		wg.Add(1)
		go func() {
			defer wg.Done()
			for ji := range ch {
				j := jobs[ji]
				r.Eval()
				dir := app.ScratchDir(base, "kill")
				func() {
					defer os.RemoveAll(dir)
					hist := []string{}
					fail := func(sig, what string) {
						r.Violation(sig, fmt.Sprintf("structure %d (%q), kill before write %d of the start: %s", j.s.N, j.s.Desc, j.killAt, what),
							map[string]interface{}{"structure": j.s, "structure_changed_in_the_killed_start": j.changed, "kill_before_write": j.killAt, "history": hist})
					}
					if j.first {
						// killed first start, complete start S, restart S, start with S', restart S'
						how := killedStart(killSpec{Dir: dir, Spec: j.s, Variant: false, KillAt: j.killAt}, fmt.Sprint(ji))
						idK := readFile(dir, "uuid")
						if idK == "<missing>" {
							idK = "" // the kill came before the id was written
						}
						hist = append(hist, fmt.Sprintf("FIRST start on the empty directory (S) killed before write %d: %s; files now: uuid=%q version=%q configHash=%x", j.killAt, how, idK, readFile(dir, "version"), readFile(dir, "configHash")))
						switch how {
						case "killed":
							r.Count("killed_starts", 1)
							r.Count("killed_first_starts", 1)
						case "completed":
							r.Count("kill_point_beyond_the_writes_of_a_start", 1)
						default:
							r.Count("killed_start_child_failures", 1)
							r.Distinct("killed_start_child_failure", how)
							return
						}
						var vs [4]int64
						var ids [4]string
						for q, variant := range []bool{false, false, true, true} {
							v, id, err := completeStart(dir, j.s, variant, q)
							hist = append(hist, fmt.Sprintf("complete start with %s: c#=%s id=%s err=%v", map[bool]string{true: "S'", false: "S"}[variant], v, id, err))
							if err != nil {
								fail("kill:start-fails-after-killed-first-start", err.Error())
								return
							}
							n, perr := strconv.ParseInt(v, 10, 64)
							if perr != nil {
								fail("kill:version-not-a-number", fmt.Sprintf("version file %q after a killed first start", v))
								return
							}
							vs[q], ids[q] = n, id
						}
						switch {
						case ids[1] != ids[0] || ids[2] != ids[0] || ids[3] != ids[0] || (idK != "" && ids[0] != idK):
							fail("kill:device-id-changes", fmt.Sprintf("device id %q after the killed first start, then %q", idK, ids))
						case vs[1] != vs[0]:
							fail("kill:c#-keeps-moving", fmt.Sprintf("the configuration number went from %d to %d on a restart without any change (after a killed first start)", vs[0], vs[1]))
						case vs[2] <= vs[1]:
							fail("kill:c#-not-bumped-after-killed-first-start", fmt.Sprintf("the first start on this directory was killed; two complete starts later the structure changed (S -> S') and the configuration number is still %d: controllers never learn about the change", vs[2]))
						case vs[2] > vs[1]+2:
							fail("kill:c#-jumps", fmt.Sprintf("the configuration number went from %d to %d for one structural change", vs[1], vs[2]))
						case vs[3] != vs[2]:
							fail("kill:c#-keeps-moving", fmt.Sprintf("the configuration number went from %d to %d on a restart without any change", vs[2], vs[3]))
						default:
							r.Count("killed_start_histories_held", 1)
						}
						return
					}
					v1, id1, err := completeStart(dir, j.s, false, 0)
					hist = append(hist, fmt.Sprintf("complete start with S: c#=%s id=%s err=%v", v1, id1, err))
					if err != nil {
						fail("kill:start-fails", err.Error())
						return
					}
					old, perr := strconv.ParseInt(v1, 10, 64)
					if perr != nil {
						return // reported by the sweep
					}
					ksp := killSpec{Dir: dir, Spec: j.s, Variant: j.changed, KillAt: j.killAt}
					if j.rename {
						ksp.KillAt, ksp.KillAtRename = 0, j.killAt
						r.Count("starts_killed_inside_a_storage_write(at a rename)", 1)
					}
					how := killedStart(ksp, fmt.Sprint(ji))
					hist = append(hist, fmt.Sprintf("start with %s killed before write %d (counting rename calls: %v): %s; files now: version=%q configHash=%x", map[bool]string{true: "S'", false: "S"}[j.changed], j.killAt, j.rename, how, readFile(dir, "version"), readFile(dir, "configHash")))
					switch how {
					case "killed":
						r.Count("killed_starts", 1)
						r.Distinct("kill_point", fmt.Sprint(j.killAt))
					case "completed":
						r.Count("kill_point_beyond_the_writes_of_a_start", 1)
					default:
						r.Count("killed_start_child_failures", 1)
						r.Distinct("killed_start_child_failure", how)
						return
					}
					v3, id3, err := completeStart(dir, j.s, j.changed, 1)
					hist = append(hist, fmt.Sprintf("complete start: c#=%s id=%s err=%v", v3, id3, err))
					if err != nil {
						fail("kill:start-fails-after-killed-start", err.Error())
						return
					}
					v4, id4, err := completeStart(dir, j.s, j.changed, 2)
					hist = append(hist, fmt.Sprintf("complete start: c#=%s id=%s err=%v", v4, id4, err))
					if err != nil {
						fail("kill:start-fails-after-killed-start", err.Error())
						return
					}
					if id3 != id1 || id4 != id1 {
						fail("kill:device-id-changes", fmt.Sprintf("device id %q before, %q / %q after the killed start", id1, id3, id4))
						return
					}
					n3, e3 := strconv.ParseInt(v3, 10, 64)
					n4, e4 := strconv.ParseInt(v4, 10, 64)
					switch {
					case e3 != nil || e4 != nil:
						fail("kill:version-not-a-number", fmt.Sprintf("version file %q / %q after the killed start", v3, v4))
					case j.changed && n3 <= old:
						fail("kill:c#-not-bumped-after-killed-start", fmt.Sprintf("the structure changed (S -> S') and the configuration number is still %d after the next complete start (it was %d with S): controllers never learn about the change", n3, old))
					case j.changed && n3 > old+2:
						fail("kill:c#-jumps", fmt.Sprintf("the configuration number went from %d to %d for one structural change", old, n3))
					case !j.changed && n3 != old:
						fail("kill:c#-bumped-without-structural-change", fmt.Sprintf("nothing structural changed and the configuration number went from %d to %d after a killed start", old, n3))
					case n4 != n3:
						fail("kill:c#-keeps-moving", fmt.Sprintf("the configuration number went from %d to %d on a restart without any change", n3, n4))
					default:
						r.Count("killed_start_histories_held", 1)
					}
				}()
			}
		}()
	}
	for i := range jobs {
		ch <- i
	}
	close(ch)
	wg.Wait()
	if f := r.Counter("killed_start_child_failures"); f > 0 {
		r.Inconclusive(fmt.Sprintf("killed starts: %d child processes failed otherwise than by the kill", f))
	}
	r.Floor("killed_starts", int(r.Counter("killed_starts")), n*2)
	r.Floor("killed_first_starts", int(r.Counter("killed_first_starts")), n/2)
	r.Floor("kill points", r.DistinctN("kill_point"), 3)
}

// idLengths: "sf == 1 iff no controller is stored" for controller identifiers of every length 1..100 bytes (HAP identifiers
// are 36 characters; the stored record of a pairing grows with the identifier, so its size takes every residue modulo
// whatever block size the storage reads with).  One directory per length: a controller is stored through hc's database,
// a transport is constructed on the directory (sf must be 0 and the stored pairing must load), the controller is removed,
// another transport is constructed (sf must be 1).
func idLengths(r *vf.Run) {
	type txter interface{ VerifTXT() map[string]string }
	rnd := r.RandN("c20-idlen", 0)
	for L := 1; L <= 100; L++ {
		r.Eval()
		dir := app.ScratchDir(base, "idlen")
		func() {
			defer os.RemoveAll(dir)
			name := make([]byte, L)
			for i := range name {
				name[i] = "abcdefghijklmnopqrstuvwxyzABCDEFGHIJKLMNOPQRSTUVWXYZ0123456789-:"[rnd.Intn(64)]
			}
			pk := make([]byte, 32)
			rnd.Read(pk)
			fail := func(sig, what string) {
				r.Violation(sig, fmt.Sprintf("controller identifier of %d bytes: %s", L, what), map[string]interface{}{"identifier": string(name), "identifier_length": L})
			}
			sfOf := func(stage string) (string, bool) {
				var t interface{}
				var err error
				if _, pt := vf.Recover(func() {
					t, err = hc.NewIPTransport(hc.Config{StoragePath: dir, Pin: "00102003", Port: "0"}, sweepAccessory(sweepSpec{N: L, Desc: "idlen"}, false, 0))
				}); pt != "" || err != nil {
					fail("idlen:transport-constructor-fails", fmt.Sprintf("%s: NewIPTransport fails: %v %s", stage, err, trimTo(pt, 200)))
					return "", false
				}
				x, ok := t.(txter)
				if !ok {
					r.Inconclusive("idLengths: the transport has no VerifTXT hook")
					return "", false
				}
				return x.VerifTXT()["sf"], true
			}
			// the first construction creates the accessory's own identity
			if sf, ok := sfOf("empty directory"); !ok {
				return
			} else if sf != "1" {
				fail("sf:unpaired-but-hidden:fresh", fmt.Sprintf("sf=%q on a directory without any controller", sf))
				return
			}
			d, err := db.NewDatabase(dir)
			if err != nil {
				r.Inconclusive("idLengths: " + err.Error())
				return
			}
			if err := d.SaveEntity(db.NewEntity(string(name), pk, nil)); err != nil {
				fail("idlen:controller-cannot-be-stored", err.Error())
				return
			}
			if sf, ok := sfOf("one controller stored"); !ok {
				return
			} else if sf != "0" {
				fail("sf:paired-but-discoverable:identifier-length", fmt.Sprintf("a controller is stored and the accessory advertises sf=%q (discoverable for pairing)", sf))
				return
			}
			if e, err := d.EntityWithName(string(name)); err != nil || !bytes.Equal(e.PublicKey, pk) {
				fail("idlen:stored-controller-does-not-load", fmt.Sprintf("the stored controller cannot be loaded again: %v", err))
				return
			}
			d.DeleteEntity(db.NewEntity(string(name), nil, nil))
			if sf, ok := sfOf("controller removed"); !ok {
				return
			} else if sf != "1" {
				fail("sf:unpaired-but-hidden:identifier-length", fmt.Sprintf("the only controller was removed and the accessory advertises sf=%q", sf))
				return
			}
			r.Count("identifier_lengths_held", 1)
		}()
	}
	r.Floor("identifier_lengths_held+violations", int(r.Counter("identifier_lengths_held"))+r.ViolationCount(), 100)
}

package main

// Part 4: structure sweep.  The restart histories of part 1 exercise a few hundred attribute databases with
// a real transport each; what is stored between runs (the fingerprint of the structure, the configuration
// number, the device id) however is a function of the *content* of that database, and a defect that depends
// on the stored bytes (a fingerprint that ends in a line feed, starts with a NUL, contains a quote, ...)
// shows on one structure in a few hundred only.  The sweep therefore runs thousands of small, distinct
// structures through the cheapest possible restart history: NewIPTransport on one directory without Start
// (identity, fingerprint and configuration number are loaded, compared and saved by the constructor),
//
//	run 1  structure S         c# = v1
//	run 2  structure S         c# = v1          (no change)
//	run 3  structure S, other values            c# = v1
//	run 4  structure S'        c# = v1 + 1      (one structural change)
//	run 5  structure S'        c# = v1 + 1
//	run 6  structure S         c# = v1 + 2      (changed back: a change again)
//
// with the device id constant throughout.  Observed at the version / uuid files and the advertised c#.

import (
	"fmt"
	"os"
	"strconv"
	"sync"
	"sync/atomic"

	"github.com/brutella/hc"
	"github.com/brutella/hc/accessory"
	"github.com/brutella/hc/characteristic"

	"verif/harness/app"
	"verif/vf"
)

type sweepSpec struct {
	N     int    `json:"structure"`
	Desc  string `json:"description_of_first_characteristic"`
	Extra int    `json:"extra_characteristics"`
	Kind  int    `json:"accessory_kind"`
}

func sweepAccessory(s sweepSpec, variant bool, values int) *accessory.Accessory {
	info := accessory.Info{Name: "sweep", SerialNumber: "1", Manufacturer: "m", Model: "x"}
	var a *accessory.Accessory
	var first *characteristic.Characteristic
	switch s.Kind % 3 {
	case 0:
		x := accessory.NewSwitch(info)
		x.Switch.On.SetValue(values%2 == 1)
		a, first = x.Accessory, x.Switch.On.Characteristic
	case 1:
		x := accessory.NewLightbulb(info)
		x.Lightbulb.On.SetValue(values%2 == 1)
		a, first = x.Accessory, x.Lightbulb.On.Characteristic
	default:
		x := accessory.NewOutlet(info)
		x.Outlet.On.SetValue(values%2 == 1)
		a, first = x.Accessory, x.Outlet.On.Characteristic
	}
	first.Description = s.Desc
	svc := a.Services[len(a.Services)-1]
	for i := 0; i < s.Extra; i++ {
		c := characteristic.NewBrightness()
		c.SetValue((values*7 + i) % 101)
		svc.AddCharacteristic(c.Characteristic)
	}
	if variant { // S': one more characteristic
		c := characteristic.NewHue()
		c.SetValue(float64(values % 360))
		svc.AddCharacteristic(c.Characteristic)
	}
	return a
}

type sweepObs struct {
	Run     int    `json:"run"`
	Version string `json:"version_file"`
	UUID    string `json:"uuid_file"`
	TXTc    string `json:"txt_c#"`
	TXTid   string `json:"txt_id"`
	Err     string `json:"error,omitempty"`
}

func sweepOne(s sweepSpec) (obs []sweepObs, sig, what string) {
	dir := app.ScratchDir(base, "sweep")
	defer os.RemoveAll(dir)
	type txter interface{ VerifTXT() map[string]string }
	plan := []struct {
		variant bool
		values  int
	}{{false, 0}, {false, 0}, {false, 1}, {true, 1}, {true, 2}, {false, 3}}
	for i, p := range plan {
		o := sweepObs{Run: i + 1}
		var t interface{}
		var err error
		_, pt := vf.Recover(func() {
			t, err = hc.NewIPTransport(hc.Config{StoragePath: dir, Pin: "00102003", Port: "0"}, sweepAccessory(s, p.variant, p.values))
		})
		if pt != "" {
			return append(obs, o), "sweep:transport-constructor-panics", fmt.Sprintf("run %d: NewIPTransport panics: %s", i+1, trimTo(pt, 300))
		}
		if err != nil {
			o.Err = err.Error()
			return append(obs, o), "sweep:transport-constructor-fails", fmt.Sprintf("run %d: NewIPTransport fails: %v", i+1, err)
		}
		o.Version, o.UUID = readFile(dir, "version"), readFile(dir, "uuid")
		if x, ok := t.(txter); ok {
			txt := x.VerifTXT()
			o.TXTc, o.TXTid = txt["c#"], txt["id"]
		}
		obs = append(obs, o)
	}
	v1, err := strconv.ParseInt(obs[0].Version, 10, 64)
	if err != nil {
		return obs, "sweep:version-not-a-number", fmt.Sprintf("version file after the first run is %q", obs[0].Version)
	}
	want := []int64{v1, v1, v1, v1 + 1, v1 + 1, v1 + 2}
	why := []string{"first run", "restart, nothing changed", "restart, only values changed", "restart, one characteristic added", "restart, nothing changed", "restart, the characteristic removed again"}
	for i, o := range obs {
		if o.UUID != obs[0].UUID || o.TXTid != obs[0].TXTid || o.UUID == "" || o.UUID == "<missing>" {
			return obs, "sweep:device-id-changes", fmt.Sprintf("run %d: device id %q / advertised %q, first run %q / %q", i+1, o.UUID, o.TXTid, obs[0].UUID, obs[0].TXTid)
		}
		if o.Version != strconv.FormatInt(want[i], 10) || o.TXTc != o.Version {
			kind := "sweep:c#-not-bumped"
			if got, e := strconv.ParseInt(o.Version, 10, 64); e != nil || got > want[i] || o.TXTc != o.Version {
				kind = "sweep:c#-bumped-without-structural-change"
				if i == 3 || i == 5 {
					kind = "sweep:c#-wrong"
				}
			}
			return obs, kind, fmt.Sprintf("run %d (%s): c# stored %q advertised %q, expected %d", i+1, why[i], o.Version, o.TXTc, want[i])
		}
	}
	return obs, "", ""
}

func trimTo(s string, n int) string {
	if len(s) > n {
		return s[:n]
	}
	return s
}

func structureSweep(r *vf.Run) {
	n := r.Pick(3000, 60000)
	var done, bumps int64
	var wg sync.WaitGroup
	ch := make(chan sweepSpec)
	for w := 0; w < 16; w++ {
		wg.Add(1)
		go func() {
			defer wg.Done()
			for s := range ch {
				obs, sig, what := sweepOne(s)
				r.Eval()
				if sig != "" {
					r.Violation(sig, fmt.Sprintf("structure %d (description %q, %d extra characteristics): %s", s.N, s.Desc, s.Extra, what),
						map[string]interface{}{"structure": s, "runs": obs})
					continue
				}
				atomic.AddInt64(&done, 1)
				atomic.AddInt64(&bumps, 2)
			}
		}()
	}
	rnd := r.RandN("c20-sweep", 0)
	salt := rnd.Intn(1 << 30)
	for i := 0; i < n; i++ {
		s := sweepSpec{N: i, Desc: fmt.Sprintf("relay %d/%d", salt, i), Extra: i % 3, Kind: i}
		r.SampleAt(i, func() interface{} { return s })
		ch <- s
	}
	close(ch)
	wg.Wait()
	r.Count("sweep_structures_completed", int(done))
	r.Count("sweep_restarts_without_bump", int(done)*3)
	r.Count("sweep_bumps_observed", int(bumps))
	r.Floor("sweep_structures_completed", int(done), n*99/100)
}

// C20 — identity, configuration number and discoverability persist correctly; setup codes and setup URI.
//
// Part 1: restart histories on one storage directory.  Every run builds an accessory set from a recipe,
// starts a real hc IP transport, pairs / unpairs / adds controllers with the independent controller refctl,
// changes values locally and remotely, stops.  A model predicts device id, key pair, stored pairings, c#
// (bumped by exactly one iff the monitor's own value-free fingerprint of the attribute database differs
// from the previous run) and sf (1 iff no controller entity is stored), checked after the start and after
// every operation.  A subset of the histories performs every run in a fresh child process.
// Part 4 (sweep.go): thousands of small distinct structures through a six-run restart history without a
// started transport (what is stored between runs depends on the content of the database).
// Part 2: ValidatePin / NewIPTransport against "eight ASCII digits and not trivial".
// Part 3: util.XHMURI and transport.XHMURI() against an independent decoder of the HAP setup payload.
package main

import (
	"fmt"
	"os"
	"sync"
	"time"

	"verif/vf"
)

var run *vf.Run
var base string

func main() {
	for i, a := range os.Args {
		if a == "-child" && i+1 < len(os.Args) {
			childMain(os.Args[i+1])
			return
		}
		if a == "-killchild" && i+1 < len(os.Args) {
			killChildMain(os.Args[i+1])
			return
		}
	}
	run = vf.Start("C20", "exploration")
	r := run
	base = r.WorkDir()
	r.SetRule("a restart history = (setup code, setup id, 4..7 runs on one storage directory; per run a recipe obtained from the previous one by no change, value-only changes " +
		"(initial values, accessory name, serial/model/firmware, value present/absent, category, constructor temperature) or one structural change " +
		"(accessory/service/characteristic added or removed, permission added/removed, bound, type, order, explicit accessory id, unit/description/maxLen/hidden, constructor kind), " +
		"and a sequence of pair / add-controller / unpair / local SetValue / remote PUT operations); distinct by all of it; observations after the start and after every operation. " +
		"Setup codes: every checked string is a case (distinct strings; classes listed). Setup URI: distinct (category, flag set) pairs, all 4096 of them, each with many codes and setup ids")
	r.Assume("restarts are modelled by stopping the transport and creating a new one on the same directory (all state of hc is on disk); a subset of histories uses a fresh process per run")
	r.Assume("the attribute database an accessory serves is json.Marshal of the accessories in the order given to NewIPTransport (compared with GET /accessories whenever a controller is paired)")
	r.Assume("c# wrap-around at 65535 is not demanded (the property does not state it)")
	r.Watchdog(time.Duration(r.Pick(20, 90)) * time.Minute)

	// ---- part 2 and 3 first (pure functions)
	t0 := time.Now()
	r.Guard("setup codes", func() { setupCodes(r) })
	t1 := time.Now()
	r.Guard("setup uris", func() { setupURIs(r) })
	t2 := time.Now()
	r.Guard("structure sweep", func() { structureSweep(r) })
	r.Guard("killed starts", func() { killedStarts(r) })
	r.Guard("identifier lengths", func() { idLengths(r) })
	r.Guard("simultaneous pairing changes", func() { simultaneous(r) })
	t3 := time.Now()

	// ---- part 1
	n := r.Pick(40, 1000)
	nchild := r.Pick(3, 40)
	var hs []*History
	edgePins := []string{"00000001", "99999998", "12345679", "00102003", "67108864", "99999989"}
	for i := 0; i < n; i++ {
		h := genHistory(i, r.RandN("c20-history", i), i%(n/nchild) == 1)
		if i < len(edgePins) {
			h.Pin = edgePins[i]
		}
		hs = append(hs, h)
	}
	var wg sync.WaitGroup
	ch := make(chan *History)
	for w := 0; w < 32; w++ {
		wg.Add(1)
		go func() {
			defer wg.Done()
			for h := range ch {
				r.Eval()
				r.Guard(fmt.Sprintf("history %d", h.N), func() { runHistory(h) })
			}
		}()
	}
	for i, h := range hs {
		r.Nontrivial(fmt.Sprintf("history:%+v", *h))
		r.Distinct("runs_per_history", fmt.Sprint(len(h.Runs)))
		r.Distinct("first_accessory_kind", h.Runs[0].Recipe.Accs[0].Kind)
		r.Distinct("accessories_in_first_run", fmt.Sprint(len(h.Runs[0].Recipe.Accs)))
		r.SampleAt(i, func() interface{} { return h })
		ch <- h
	}
	close(ch)
	wg.Wait()
	r.Extra("wall_s_by_part", map[string]float64{"setup_codes": t1.Sub(t0).Seconds(), "setup_uris": t2.Sub(t1).Seconds(), "structure_sweep": t3.Sub(t2).Seconds(), "histories": time.Since(t3).Seconds()})

	r.Floor("histories_completed", int(r.Counter("histories_completed")), n*9/10)
	r.Floor("histories_continued_from_a_large_configuration_number", int(r.Counter("histories_continued_from_a_large_configuration_number"))+100*r.ViolationCount(), n/10)
	r.Floor("bumps_observed", int(r.Counter("bumps_observed")), n/2)
	r.Floor("restarts_without_bump", int(r.Counter("restarts_without_bump")), n/2)
	r.Floor("transitions_values_only", int(r.Counter("transitions_values_only")), n/3)
	r.Floor("structural_change_kinds_effective", r.DistinctN("structural_change_kind_effective"), r.Pick(10, 14))
	r.Floor("value_change_kinds", r.DistinctN("value_change_kind"), r.Pick(5, 6))
	r.Floor("restarts_with_pairings_kept", int(r.Counter("restarts_with_pairings_kept")), n/2)
	r.Floor("sf=1 after the last pairing was removed", int(r.Counter("sf_checked:unpair:sf=1")), n/4)
	r.Floor("sf=0 after pair-setup", int(r.Counter("sf_checked:pair:sf=0")), n/2)
	r.Floor("sf=0 after one of several pairings was removed", int(r.Counter("sf_checked:remove-one-of-several:sf=0")), n/10)
	r.Floor("sf=0 after a restart with pairings", int(r.Counter("sf_checked:restart:sf=0")), n/2)
	r.Floor("sf=1 after a restart without pairings", int(r.Counter("sf_checked:restart:sf=1")), n/4)
	r.Floor("runs_in_child_process", int(r.Counter("runs_in_child_process")), nchild*3)
	r.Floor("transport_uris_decoded", int(r.Counter("transport_uris_decoded")), n*3)
	r.Floor("codes_checked", int(r.Counter("codes_checked")), r.Pick(1000000, 100000000))
	r.Floor("non_code_strings_checked", int(r.Counter("non_code_strings_checked")), 20000)
	r.Floor("transports_refused_for_invalid_code", int(r.Counter("transports_refused_for_invalid_code")), 80)
	r.Floor("uris_decoded", int(r.Counter("uris_decoded")), r.Pick(300000, 100000000))
	r.Finish()
}

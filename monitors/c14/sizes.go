package main

// Served size sweep.  "The attribute database served to controllers is well-formed HAP JSON" passes through
// the JSON encoder, the 2048-byte chunked writer, HTTP and the 1024-byte session frames; whether a body
// arrives whole depends on its length relative to those sizes, and the recipes above produce a few hundred
// lengths only.  The sweep serves ONE database and lets the application grow a string value byte by byte, so
// that the body takes every length of a contiguous range longer than 2 * 2048: every residue modulo the chunk
// size and modulo the frame size is met, including the exact multiples.  Every body must have exactly the
// expected length, parse, be well-formed and carry the ids of the first answer.

import (
	"fmt"
	"os"
	"strings"
	"time"

	"github.com/brutella/hc/accessory"
	"github.com/brutella/hc/characteristic"

	"verif/harness/app"
	"verif/refctl"
	"verif/vf"
)

func (c *checker) sizeSweep(r *vf.Run, nAcc int, span int) {
	rc := &recipe{Kind: fmt.Sprintf("size sweep: bridge + %d switches, the serial number of the bridge grows by one byte per request", nAcc)}
	dir := app.ScratchDir(r.WorkDir(), "sizes")
	defer os.RemoveAll(dir)
	me := refctl.NewIdentity("c14-sizes", r.RandN("c14-sizes", nAcc))
	app.StoreController(dir, me)
	bridge := accessory.NewBridge(accessory.Info{Name: "Sizes", SerialNumber: "s"})
	var rest []*accessory.Accessory
	for i := 0; i < nAcc; i++ {
		rest = append(rest, accessory.NewSwitch(accessory.Info{Name: fmt.Sprintf("sw %d", i)}).Accessory)
	}
	// the padding lives in a string characteristic without a length limit of its own
	pad := characteristic.NewString("F0000001-0000-1000-8000-0026BB765291")
	pad.Perms = []string{characteristic.PermRead}
	pad.SetValue("")
	bridge.Info.AddCharacteristic(pad.Characteristic)
	a, err := app.Start(dir, "00102003", bridge.Accessory, rest...)
	if err != nil {
		r.Inconclusive(fmt.Sprintf("size sweep: transport did not start: %v", err))
		return
	}
	defer a.Stop()
	ent, _ := app.AccessoryEntity(dir)
	cn, err := a.Verified(me, ent.PublicKey, ent.Name)
	if err != nil {
		r.Inconclusive(fmt.Sprintf("size sweep: pair-verify failed: %v", err))
		return
	}
	defer cn.Close()
	cn.Timeout = 30 * time.Second
	var base int
	var first []accView
	for k := 0; k <= span; k++ {
		pad.SetValue(strings.Repeat("a", k))
		if k%16 == 5 {
			// another controller asks for the database and leaves before (or while) it is written: what that aborted
			// answer leaves behind must not show in the next one
			if ab, err := a.Verified(me, ent.PublicKey, ent.Name); err == nil {
				ab.Send(refctl.BuildRequest("GET", "/accessories", "", nil))
				if k%32 == 5 {
					ab.Close()
				} else {
					ab.CloseGraceful()
				}
				r.Count("size_sweep_answers_abandoned_by_another_controller", 1)
				time.Sleep(2 * time.Millisecond)
			}
		}
		m, err := cn.Do("GET", "/accessories", "", nil)
		if err != nil {
			c.fail(rc, "served:size:no-answer", fmt.Sprintf("GET /accessories with an expected body of %d bytes (%d mod 2048, %d mod 1024) got no complete answer: %v", base+k, (base+k)%2048, (base+k)%1024, err),
				map[string]interface{}{"padding": k, "expected_length": base + k})
			return
		}
		if m.Status != 200 {
			c.fail(rc, "served:status", fmt.Sprintf("GET /accessories answered %d", m.Status), nil)
			return
		}
		if k == 0 {
			base = len(m.Body)
		}
		r.Count("size_sweep_bodies", 1)
		if len(m.Body)%2048 == 0 {
			r.Count("size_sweep_bodies_of_a_multiple_of_the_chunk_size", 1)
		}
		if len(m.Body)%1024 == 0 {
			r.Count("size_sweep_bodies_of_a_multiple_of_the_frame_size", 1)
		}
		r.Distinct("size_sweep_length_mod_2048", fmt.Sprint(len(m.Body)%2048))
		if len(m.Body) != base+k {
			c.fail(rc, "served:size:length", fmt.Sprintf("the attribute database should be %d bytes long (%d mod 2048) and %d bytes arrived", base+k, (base+k)%2048, len(m.Body)),
				map[string]interface{}{"padding": k, "expected_length": base + k, "got_length": len(m.Body), "tail": string(tail(m.Body, 80))})
			continue
		}
		sv, ok := c.parseDB(rc, fmt.Sprintf("served (body of %d bytes, %d mod 2048)", len(m.Body), len(m.Body)%2048), m.Body)
		if !ok {
			continue
		}
		if k == 0 {
			first = canon(sv)
			c.checkIDs(rc, "served", sv)
			continue
		}
		if d, _ := diffViews(first, canon(sv)); d != "" {
			c.fail(rc, "served:size:ids-differ", fmt.Sprintf("the database of %d bytes carries other ids than the one of %d bytes: %s", len(m.Body), base, d), nil)
		}
	}
}

func tail(b []byte, n int) []byte {
	if len(b) > n {
		return b[len(b)-n:]
	}
	return b
}

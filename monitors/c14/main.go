// C14 — accessory and instance ids are unique, stable and well-formed.
//
// Harness: a composition is a *recipe* — a deterministic description of which accessories are built
// (constructors of the generated catalog, or accessory.New + catalog services + custom services made
// of catalog characteristics, with hidden / primary / linked flags) and which accessory id each one
// asks for (0 = automatic, explicit values incl. collisions and huge ones, the same object added a
// second time).  A recipe is built from scratch two times (three for a subset) into an
// accessory.Container; for a further subset fresh objects are handed to a real hc IP transport and the
// attribute database is fetched with GET /accessories by the independent controller refctl over a
// pair-verified connection — twice: the transport is stopped and a second one is started on the same
// storage with objects built anew (the restart of the property).
//
// Oracle (this file's own statement of the property; nothing is compared with hc's duplicate check):
//   - among the accessories found in the container (= the accepted ones): aid != 0 and pairwise distinct;
//   - inside each accessory: every service iid and characteristic iid != 0 and pairwise distinct in
//     the one iid space of the accessory;
//   - the objects of build 1, build 2 (and 3) carry equal ids position by position (position =
//     construction order); the database served after the restart carries the ids of the one served
//     before (documents are compared ordered by id: the order in which JSON lists its members is not
//     part of the property);
//   - the JSON (json.Marshal of the container, and the served body), decoded into generic maps with
//     json.Number, has "accessories"; per accessory "aid" (unsigned integer > 0) and "services" (array);
//     per service "iid", "type" (non-empty string), "characteristics" (array); per characteristic "iid",
//     "type", "format" out of the HAP formats, "perms" a non-empty array out of the HAP permission set;
//     "linked" lists iids of services of the same accessory; the ids in the JSON are the ids of the objects.
//
// Not demanded: that ids are 1..n (only counted), that an automatic id avoids an explicit one given
// earlier (the accessory is then refused with an error; counted as auto_id_rejected_due_to_explicit),
// anything about a service object shared by two accessories (a user error; not generated).
package main

import (
	"bytes"
	"encoding/json"
	"fmt"
	"math"
	"math/rand"
	"os"
	"regexp"
	"sort"
	"strconv"
	"strings"
	"sync"
	"sync/atomic"
	"time"

	"github.com/brutella/hc/accessory"
	"github.com/brutella/hc/characteristic"
	"github.com/brutella/hc/service"

	"verif/harness/app"
	"verif/harness/catalog"
	"verif/refctl"
	"verif/vf"
)

// ---------------------------------------------------------------- recipes

type svcSpec struct {
	Ctor  string   `json:"service"`               // catalog service constructor, or "custom" (service.New with a vendor type)
	Chars []string `json:"extra_chars,omitempty"` // catalog characteristic constructors appended to it
	// Vendor > 0: the custom service gets vendorTypes[Vendor-1] as its type and one characteristic of a vendor type
	Vendor int `json:"vendor_type,omitempty"`
}

// vendorTypes are long-form UUIDs as vendors choose them: any first digit (also 0), the Apple base and others, upper
// and lower case.  The attribute database must carry the type the application gave (HAP's short form is allowed for
// types of the Apple base UUID only).
var vendorTypes = []string{
	"F0000000-0000-1000-8000-0026BB765291", "00000001-0000-1777-8000-775D67EC4377", "0A1B2C3D-4E5F-6071-8293-A4B5C6D7E8F9",
	"00000000-0000-0000-0000-000000000001", "10000000-0000-1000-8000-0026BB765291", "000000FF-0000-2000-8000-0026BB765291",
	"e863f10a-079e-48ff-8f27-9c2605a29f52", "00001530-1212-EFDE-1523-785FEABCD123", "34AB8811-AC7F-4340-BAC3-FD6A85F9943B",
	"0000003E-0000-1000-8000-0026BB765291",
}

const appleBase = "-0000-1000-8000-0026BB765291"

var uuidRe = regexp.MustCompile(`^[0-9A-Fa-f]{8}-[0-9A-Fa-f]{4}-[0-9A-Fa-f]{4}-[0-9A-Fa-f]{4}-[0-9A-Fa-f]{12}$`)
var shortRe = regexp.MustCompile(`^[0-9A-Fa-f]{1,8}$`)

// sameType: the served type is the given one, or (for the Apple base only) its short form.
func sameType(served, given string) bool {
	if strings.EqualFold(served, given) {
		return true
	}
	if g := strings.ToUpper(given); strings.HasSuffix(g, appleBase) && shortRe.MatchString(served) {
		return strings.TrimLeft(g[:8], "0") == strings.TrimLeft(strings.ToUpper(served), "0")
	}
	return false
}

type flagOp struct {
	Svc     int   `json:"service_pos"` // position in the accessory's service list, taken modulo its length
	Hidden  bool  `json:"hidden,omitempty"`
	Primary bool  `json:"primary,omitempty"`
	Linked  []int `json:"linked,omitempty"` // positions (modulo length; a link to itself is skipped)
}

type accSpec struct {
	Ctor     string    `json:"accessory"` // catalog accessory constructor, or "New" (accessory.New)
	ID       uint64    `json:"id"`        // 0 = automatic
	Type     int       `json:"type,omitempty"`
	Services []svcSpec `json:"services,omitempty"` // added after the constructor's own services
	Flags    []flagOp  `json:"flags,omitempty"`
	Readd    int       `json:"readd_of,omitempty"` // >0: add the object built for entry Readd-1 a second time
	// LinkFirst: services are linked / flagged BEFORE they are added to the accessory (an application may do
	// either; linking after adding is what the library's own constructors do)
	LinkFirst bool `json:"link_first,omitempty"`
	// Remove: RemoveAccessory is called for this object right after its AddAccessory (whether that was accepted or
	// refused: an application cleaning up after a refused duplicate does exactly that); Again: it is then added again
	Remove bool `json:"remove_after_add,omitempty"`
	Again  bool `json:"add_again,omitempty"`
	// Transplant > 0: this entry is accessory.New + one custom service + the service OBJECTS (all but the information
	// service) of the object built for entry Transplant-1, which the container had refused or which was removed again:
	// an application that replaces a refused accessory reuses what it had built for it
	Transplant int `json:"transplant_services_of,omitempty"`
}

type recipe struct {
	Kind string    `json:"kind"`
	Accs []accSpec `json:"accessories"`
}

var (
	accByName  = map[string]catalog.AccCtor{}
	svcByName  = map[string]catalog.SvcCtor{}
	charByName = map[string]catalog.CharCtor{}
)

const customType = "F0000000-0000-1000-8000-0026BB765291"

var typeIssues sync.Map // *accessory.Accessory -> []string: vendor types that an object does not carry as given
var vendorServices atomic.Int64

// ---------------------------------------------------------------- building

type built struct {
	cont     *accessory.Container
	objs     []*accessory.Accessory // per recipe entry; nil when a constructor panicked / returned nil
	errs     []string               // per entry: AddAccessory error text, "" when accepted
	skipped  int                    // constructors that panicked or returned nil (C15's subject)
	panicTxt string
}

// assemble builds the objects of one recipe entry (fresh objects every call).
func assemble(sp accSpec) (acc *accessory.Accessory, skipped int) {
	info := catalog.DefaultInfo()
	info.ID = sp.ID
	if sp.Ctor == "New" {
		acc = accessory.New(info, accessory.AccessoryType(sp.Type))
	} else {
		c, ok := accByName[sp.Ctor]
		if !ok {
			return nil, 1
		}
		a, p := catalog.SafeAccessory(c, info)
		if p != "" || a == nil {
			return nil, 1
		}
		acc = a
	}
	var pending []*service.Service
	for _, ss := range sp.Services {
		var s *service.Service
		if ss.Ctor == "custom" {
			s = service.New(customType)
			if ss.Vendor > 0 {
				vt, ct := vendorTypes[(ss.Vendor-1)%len(vendorTypes)], vendorTypes[ss.Vendor%len(vendorTypes)]
				s = service.New(vt)
				vc := characteristic.NewBool(ct)
				vc.Perms = characteristic.PermsAll()
				vc.SetValue(true)
				s.AddCharacteristic(vc.Characteristic)
				var issues []string
				if !sameType(s.Type, vt) {
					issues = append(issues, fmt.Sprintf("service.New(%q) has the type %q", vt, s.Type))
				}
				if !sameType(vc.Type, ct) {
					issues = append(issues, fmt.Sprintf("characteristic.NewBool(%q) has the type %q", ct, vc.Type))
				}
				if len(issues) > 0 {
					old, _ := typeIssues.LoadOrStore(acc, issues)
					if o := old.([]string); len(o) > 0 && &o[0] != &issues[0] {
						typeIssues.Store(acc, append(o, issues...))
					}
				}
				vendorServices.Add(1)
			}
		} else {
			c, ok := svcByName[ss.Ctor]
			if !ok {
				skipped++
				continue
			}
			var p string
			s, p = catalog.SafeService(c)
			if p != "" || s == nil {
				skipped++
				continue
			}
		}
		for _, cn := range ss.Chars {
			c, ok := charByName[cn]
			if !ok {
				skipped++
				continue
			}
			ch, p := catalog.SafeChar(c)
			if p != "" || ch == nil {
				skipped++
				continue
			}
			s.AddCharacteristic(ch)
		}
		if sp.LinkFirst {
			pending = append(pending, s)
		} else {
			acc.AddService(s)
		}
	}
	all := append(append([]*service.Service{}, acc.Services...), pending...)
	n := len(all)
	for _, f := range sp.Flags {
		if n == 0 {
			break
		}
		s := all[mod(f.Svc, n)]
		if s == nil {
			continue
		}
		if f.Hidden {
			s.Hidden = true
		}
		if f.Primary {
			s.Primary = true
		}
		for _, l := range f.Linked {
			o := all[mod(l, n)]
			if o == nil || o == s {
				continue
			}
			s.AddLinkedService(o)
		}
	}
	for _, s := range pending {
		acc.AddService(s)
	}
	return acc, skipped
}

func mod(a, n int) int {
	a %= n
	if a < 0 {
		a += n
	}
	return a
}

// objects builds every accessory object of a recipe, in order.
func objects(rc *recipe) (objs []*accessory.Accessory, skipped int) {
	objs = make([]*accessory.Accessory, len(rc.Accs))
	for i, sp := range rc.Accs {
		if sp.Readd > 0 {
			objs[i] = objs[sp.Readd-1]
			continue
		}
		if sp.Transplant > 0 {
			src := objs[sp.Transplant-1]
			if src == nil {
				continue
			}
			info := catalog.DefaultInfo()
			info.ID = sp.ID
			a := accessory.New(info, accessory.AccessoryType(sp.Type))
			extra := service.New(customType)
			if c, ok := charByName["NewBrightness"]; ok {
				if ch, p := catalog.SafeChar(c); p == "" && ch != nil {
					extra.AddCharacteristic(ch)
				}
			}
			a.AddService(extra)
			for _, sv := range src.Services[1:] {
				a.AddService(sv)
			}
			objs[i] = a
			continue
		}
		a, sk := assemble(sp)
		skipped += sk
		objs[i] = a
	}
	return
}

func build(rc *recipe) *built {
	b := &built{}
	p, txt := vf.Recover(func() {
		b.objs, b.skipped = objects(rc)
		b.cont = accessory.NewContainer()
		b.errs = make([]string, len(rc.Accs))
		for i, a := range b.objs {
			if a == nil {
				b.errs[i] = "not built"
				continue
			}
			if err := b.cont.AddAccessory(a); err != nil {
				b.errs[i] = err.Error()
			}
			if rc.Accs[i].Remove {
				b.cont.RemoveAccessory(a)
				b.errs[i] = "removed"
				if rc.Accs[i].Again {
					b.errs[i] = ""
					if err := b.cont.AddAccessory(a); err != nil {
						b.errs[i] = err.Error()
					}
				}
			}
		}
	})
	if p {
		b.panicTxt = txt
	}
	return b
}

// ---------------------------------------------------------------- views

type charView struct {
	IID  uint64 `json:"iid"`
	Type string `json:"type"`
}
type svcView struct {
	IID    uint64     `json:"iid"`
	Type   string     `json:"type"`
	Linked []uint64   `json:"linked,omitempty"`
	Chars  []charView `json:"chars"`
}
type accView struct {
	AID  uint64    `json:"aid"`
	Svcs []svcView `json:"services"`
}

func viewOfObjects(c *accessory.Container) []accView {
	var out []accView
	for _, a := range c.Accessories {
		av := accView{AID: a.ID}
		for _, s := range a.Services {
			sv := svcView{IID: s.ID, Type: s.Type}
			for _, l := range s.Linked {
				sv.Linked = append(sv.Linked, l.ID)
			}
			for _, ch := range s.Characteristics {
				sv.Chars = append(sv.Chars, charView{ch.ID, ch.Type})
			}
			av.Svcs = append(av.Svcs, sv)
		}
		out = append(out, av)
	}
	return out
}

// compact renders the id layout of one accessory: "aid=3 s1[c2 c3] s4[c5]".
func compact(a accView) string {
	var sb strings.Builder
	fmt.Fprintf(&sb, "aid=%d", a.AID)
	for _, s := range a.Svcs {
		fmt.Fprintf(&sb, " s%d(%s)[", s.IID, s.Type)
		for i, c := range s.Chars {
			if i > 0 {
				sb.WriteByte(' ')
			}
			fmt.Fprintf(&sb, "c%d", c.IID)
		}
		sb.WriteByte(']')
		if len(s.Linked) > 0 {
			fmt.Fprintf(&sb, "->%v", s.Linked)
		}
	}
	s := sb.String()
	if len(s) > 1500 {
		s = s[:1500] + "..."
	}
	return s
}

func aids(v []accView) []uint64 {
	out := make([]uint64, len(v))
	for i, a := range v {
		out[i] = a.AID
	}
	return out
}

// canon orders a layout by id (accessories by aid, services and characteristics by iid, links
// ascending): the order in which a JSON document lists its members is not part of the property, so
// documents are compared with the objects and with each other in this form.
func canon(v []accView) []accView {
	out := make([]accView, len(v))
	for i, a := range v {
		ca := accView{AID: a.AID, Svcs: make([]svcView, len(a.Svcs))}
		for j, s := range a.Svcs {
			cs := svcView{IID: s.IID, Type: s.Type}
			cs.Linked = append(cs.Linked, s.Linked...)
			sort.Slice(cs.Linked, func(x, y int) bool { return cs.Linked[x] < cs.Linked[y] })
			cs.Chars = append(cs.Chars, s.Chars...)
			sort.SliceStable(cs.Chars, func(x, y int) bool { return cs.Chars[x].IID < cs.Chars[y].IID })
			ca.Svcs[j] = cs
		}
		sort.SliceStable(ca.Svcs, func(x, y int) bool { return ca.Svcs[x].IID < ca.Svcs[y].IID })
		out[i] = ca
	}
	sort.SliceStable(out, func(x, y int) bool { return out[x].AID < out[y].AID })
	return out
}

// diffViews returns "" when the two layouts carry identical ids position by position.
func diffViews(a, b []accView) (what string, acc int) {
	if len(a) != len(b) {
		return fmt.Sprintf("%d accessories vs %d (aids %v vs %v)", len(a), len(b), aids(a), aids(b)), -1
	}
	for i := range a {
		if a[i].AID != b[i].AID {
			return fmt.Sprintf("accessory #%d has aid %d vs %d (aids %v vs %v)", i, a[i].AID, b[i].AID, aids(a), aids(b)), i
		}
		if len(a[i].Svcs) != len(b[i].Svcs) {
			return fmt.Sprintf("accessory #%d has %d services vs %d", i, len(a[i].Svcs), len(b[i].Svcs)), i
		}
		for j := range a[i].Svcs {
			sa, sb := a[i].Svcs[j], b[i].Svcs[j]
			if sa.IID != sb.IID || sa.Type != sb.Type {
				return fmt.Sprintf("accessory #%d service #%d is iid %d type %s vs iid %d type %s", i, j, sa.IID, sa.Type, sb.IID, sb.Type), i
			}
			if len(sa.Chars) != len(sb.Chars) {
				return fmt.Sprintf("accessory #%d service #%d has %d characteristics vs %d", i, j, len(sa.Chars), len(sb.Chars)), i
			}
			for k := range sa.Chars {
				if sa.Chars[k] != sb.Chars[k] {
					return fmt.Sprintf("accessory #%d service #%d characteristic #%d is iid %d type %s vs iid %d type %s", i, j, k,
						sa.Chars[k].IID, sa.Chars[k].Type, sb.Chars[k].IID, sb.Chars[k].Type), i
				}
			}
			if fmt.Sprint(sa.Linked) != fmt.Sprint(sb.Linked) {
				return fmt.Sprintf("accessory #%d service #%d links %v vs %v", i, j, sa.Linked, sb.Linked), i
			}
		}
	}
	return "", -1
}

// ---------------------------------------------------------------- the checker

var hapFormats = map[string]bool{"string": true, "bool": true, "float": true, "uint8": true, "uint16": true, "uint32": true,
	"int32": true, "int": true, "uint64": true, "data": true, "tlv8": true}
var hapPerms = map[string]bool{"pr": true, "pw": true, "ev": true, "aa": true, "tw": true, "hd": true, "wr": true}

type checker struct {
	r *vf.Run

	mu      sync.Mutex
	typed   map[string]map[string]*pending // signature class -> characteristic/service type -> first failure
	classes []string
}

type pending struct {
	what    string
	witness interface{}
	count   int
}

func (c *checker) fail(rc *recipe, sig, what string, extra map[string]interface{}) {
	w := map[string]interface{}{"recipe": rc}
	for k, v := range extra {
		w[k] = v
	}
	c.r.Violation(sig, what, w)
}

// failTyped records a failure that belongs to one characteristic / service type; the signatures are
// emitted at the end: one per type, or one for the class when the whole catalog is affected.
func (c *checker) failTyped(rc *recipe, class, typ, what string, extra map[string]interface{}) {
	c.mu.Lock()
	defer c.mu.Unlock()
	if c.typed == nil {
		c.typed = map[string]map[string]*pending{}
	}
	m := c.typed[class]
	if m == nil {
		m = map[string]*pending{}
		c.typed[class] = m
		c.classes = append(c.classes, class)
	}
	p := m[typ]
	if p == nil {
		w := map[string]interface{}{"recipe": rc, "type": typ}
		for k, v := range extra {
			w[k] = v
		}
		p = &pending{what: what, witness: w}
		m[typ] = p
	}
	p.count++
}

func (c *checker) flushTyped() {
	c.mu.Lock()
	defer c.mu.Unlock()
	sort.Strings(c.classes)
	for _, class := range c.classes {
		m := c.typed[class]
		var types []string
		for t := range m {
			types = append(types, t)
		}
		sort.Strings(types)
		if len(types) > 8 {
			p := m[types[0]]
			total := 0
			for _, q := range m {
				total += q.count
			}
			w := map[string]interface{}{"first": p.witness, "types_affected": types}
			for i := 0; i < total; i++ {
				c.r.Violation(class, fmt.Sprintf("%d types affected, e.g. %s", len(types), p.what), w)
				if i > 50 {
					break
				}
			}
			continue
		}
		for _, t := range types {
			p := m[t]
			for i := 0; i < p.count && i < 50; i++ {
				c.r.Violation(class+":type="+sigSafe(t), p.what, p.witness)
			}
		}
	}
}

func sigSafe(s string) string {
	if s == "" {
		return "empty"
	}
	var b strings.Builder
	for _, r := range s {
		if (r >= 'a' && r <= 'z') || (r >= 'A' && r <= 'Z') || (r >= '0' && r <= '9') || r == '-' || r == '_' || r == '.' {
			b.WriteRune(r)
		} else {
			b.WriteByte('_')
		}
	}
	return b.String()
}

// checkIDs is the uniqueness / non-zero oracle on a layout (read from Go objects or from JSON).
func (c *checker) checkIDs(rc *recipe, source string, v []accView) {
	seenA := map[uint64]int{}
	for i, a := range v {
		if a.AID == 0 {
			c.fail(rc, "ids:accessory:zero", fmt.Sprintf("%s: accepted accessory #%d has id 0", source, i),
				map[string]interface{}{"source": source, "aids": aids(v)})
		} else if j, dup := seenA[a.AID]; dup {
			c.fail(rc, "ids:accessory:duplicate", fmt.Sprintf("%s: accepted accessories #%d and #%d both have id %d (aids %v)", source, j, i, a.AID, aids(v)),
				map[string]interface{}{"source": source, "aids": aids(v)})
		} else {
			seenA[a.AID] = i
		}
		seen := map[uint64]string{}
		zero, dupd := false, false
		seq := true
		next := uint64(1)
		note := func(id uint64, what string) {
			if id != next {
				seq = false
			}
			next++
			if id == 0 {
				if !zero {
					zero = true
					c.fail(rc, "ids:iid:zero", fmt.Sprintf("%s: %s of accessory #%d (aid %d) has instance id 0: %s", source, what, i, a.AID, compact(a)),
						map[string]interface{}{"source": source, "accessory_pos": i, "layout": compact(a)})
				}
				return
			}
			if prev, ok := seen[id]; ok {
				if !dupd {
					dupd = true
					c.fail(rc, "ids:iid:duplicate", fmt.Sprintf("%s: in accessory #%d (aid %d) %s and %s share instance id %d: %s", source, i, a.AID, prev, what, id, compact(a)),
						map[string]interface{}{"source": source, "accessory_pos": i, "layout": compact(a)})
				}
				return
			}
			seen[id] = what
		}
		svcIDs := map[uint64]bool{}
		for j, s := range a.Svcs {
			note(s.IID, fmt.Sprintf("service #%d (%s)", j, s.Type))
			svcIDs[s.IID] = true
			for k, ch := range s.Chars {
				note(ch.IID, fmt.Sprintf("characteristic #%d (%s) of service #%d", k, ch.Type, j))
			}
			c.r.Count("characteristic_ids_checked", len(s.Chars))
		}
		c.r.Count("service_ids_checked", len(a.Svcs))
		if seq {
			c.r.Count("layouts_numbered_1_to_n", 1)
		} else {
			c.r.Count("layouts_not_numbered_1_to_n", 1)
		}
		if source != "objects" {
			for j, s := range a.Svcs {
				for _, l := range s.Linked {
					c.r.Count("linked_refs_checked", 1)
					if !svcIDs[l] {
						c.fail(rc, "json:linked:dangling", fmt.Sprintf("%s: service #%d (iid %d) of accessory #%d lists linked id %d, which is no service of that accessory: %s",
							source, j, s.IID, i, l, compact(a)), map[string]interface{}{"source": source, "accessory_pos": i, "layout": compact(a)})
					}
				}
			}
		}
	}
	c.r.Count("accessory_ids_checked", len(v))
}

func uintOf(v interface{}) (uint64, bool) {
	n, ok := v.(json.Number)
	if !ok {
		return 0, false
	}
	u, err := strconv.ParseUint(n.String(), 10, 64)
	return u, err == nil
}

// parseDB decodes an attribute database with a decoder that knows nothing of hc's structs, checks the
// well-formedness the property states and returns the id layout it carries.
func (c *checker) parseDB(rc *recipe, source string, body []byte) (view []accView, ok bool) {
	dec := json.NewDecoder(bytes.NewReader(body))
	dec.UseNumber()
	var top interface{}
	if err := dec.Decode(&top); err != nil {
		c.fail(rc, "json:unparsable", fmt.Sprintf("%s: attribute database is not JSON: %v", source, err), map[string]interface{}{"source": source, "head": string(head(body, 300))})
		return nil, false
	}
	if dec.More() {
		c.fail(rc, "json:unparsable", source+": trailing data after the attribute database", map[string]interface{}{"source": source})
		return nil, false
	}
	ok = true
	bad := func(level, field, kind, typ, what string, frag interface{}) {
		ok = false
		sig := "json:" + level + ":" + kind + "-" + field
		ex := map[string]interface{}{"source": source, "fragment": fragment(frag)}
		if level == "characteristic" || level == "service" {
			c.failTyped(rc, sig, typ, source+": "+what, ex)
		} else {
			c.fail(rc, sig, source+": "+what, ex)
		}
	}
	tm, isMap := top.(map[string]interface{})
	if !isMap {
		bad("top", "accessories", "missing", "", "the attribute database is not a JSON object", top)
		return nil, false
	}
	rawAccs, has := tm["accessories"]
	if !has {
		bad("top", "accessories", "missing", "", `no "accessories" member`, keys(tm))
		return nil, false
	}
	accs, isArr := rawAccs.([]interface{})
	if !isArr {
		bad("top", "accessories", "bad", "", `"accessories" is not an array`, rawAccs)
		return nil, false
	}
	for i, ra := range accs {
		am, isMap := ra.(map[string]interface{})
		if !isMap {
			bad("accessory", "object", "bad", "", fmt.Sprintf("accessory #%d is not an object", i), ra)
			view = append(view, accView{})
			continue
		}
		av := accView{}
		if x, has := am["aid"]; !has {
			bad("accessory", "aid", "missing", "", fmt.Sprintf(`accessory #%d has no "aid"`, i), keys(am))
		} else if u, isU := uintOf(x); !isU {
			bad("accessory", "aid", "bad", "", fmt.Sprintf(`accessory #%d: "aid" is %v, not an unsigned integer`, i, x), x)
		} else {
			av.AID = u
		}
		rs, has := am["services"]
		svcs, isArr := rs.([]interface{})
		if !has {
			bad("accessory", "services", "missing", "", fmt.Sprintf(`accessory #%d has no "services"`, i), keys(am))
		} else if !isArr {
			bad("accessory", "services", "bad", "", fmt.Sprintf(`accessory #%d: "services" is not an array`, i), rs)
		}
		for j, rsv := range svcs {
			sm, isMap := rsv.(map[string]interface{})
			if !isMap {
				bad("service", "object", "bad", "", fmt.Sprintf("service #%d of accessory #%d is not an object", j, i), rsv)
				av.Svcs = append(av.Svcs, svcView{})
				continue
			}
			sv := svcView{}
			styp := "?"
			if x, has := sm["type"]; !has {
				bad("service", "type", "missing", "?", fmt.Sprintf(`service #%d of accessory #%d has no "type"`, j, i), keys(sm))
			} else if s, isS := x.(string); !isS || s == "" {
				bad("service", "type", "bad", "?", fmt.Sprintf(`service #%d of accessory #%d: "type" is %v, not a non-empty string`, j, i, x), x)
			} else {
				sv.Type, styp = s, s
				if !uuidRe.MatchString(s) && !shortRe.MatchString(s) {
					bad("service", "type", "malformed", s, fmt.Sprintf(`service #%d of accessory #%d: "type" is %q, neither a HAP short form (1..8 hex digits) nor a 128-bit UUID`, j, i, s), x)
				}
			}
			if x, has := sm["iid"]; !has {
				bad("service", "iid", "missing", styp, fmt.Sprintf(`service #%d (%s) of accessory #%d has no "iid"`, j, styp, i), keys(sm))
			} else if u, isU := uintOf(x); !isU {
				bad("service", "iid", "bad", styp, fmt.Sprintf(`service #%d (%s) of accessory #%d: "iid" is %v, not an unsigned integer`, j, styp, i, x), x)
			} else {
				sv.IID = u
			}
			if x, has := sm["hidden"]; has {
				if _, isB := x.(bool); !isB {
					bad("service", "hidden", "bad", styp, fmt.Sprintf(`service #%d (%s): "hidden" is %v, not a boolean`, j, styp, x), x)
				} else {
					c.r.Count("json_hidden_services", 1)
				}
			}
			if x, has := sm["primary"]; has {
				if _, isB := x.(bool); !isB {
					bad("service", "primary", "bad", styp, fmt.Sprintf(`service #%d (%s): "primary" is %v, not a boolean`, j, styp, x), x)
				} else {
					c.r.Count("json_primary_services", 1)
				}
			}
			if x, has := sm["linked"]; has {
				la, isArr := x.([]interface{})
				if !isArr {
					bad("service", "linked", "bad", styp, fmt.Sprintf(`service #%d (%s): "linked" is %v, not an array`, j, styp, x), x)
				}
				for _, e := range la {
					if u, isU := uintOf(e); isU {
						sv.Linked = append(sv.Linked, u)
					} else {
						bad("service", "linked", "bad", styp, fmt.Sprintf(`service #%d (%s): "linked" holds %v, not an unsigned integer`, j, styp, e), x)
					}
				}
			}
			rcs, has := sm["characteristics"]
			chars, isArr := rcs.([]interface{})
			if !has {
				bad("service", "characteristics", "missing", styp, fmt.Sprintf(`service #%d (%s) of accessory #%d has no "characteristics"`, j, styp, i), keys(sm))
			} else if !isArr {
				bad("service", "characteristics", "bad", styp, fmt.Sprintf(`service #%d (%s) of accessory #%d: "characteristics" is %v, not an array`, j, styp, i, rcs), rcs)
			}
			for k, rch := range chars {
				cm, isMap := rch.(map[string]interface{})
				if !isMap {
					bad("characteristic", "object", "bad", "?", fmt.Sprintf("characteristic #%d of service #%d (%s) is not an object", k, j, styp), rch)
					sv.Chars = append(sv.Chars, charView{})
					continue
				}
				cv := charView{}
				ctyp := "?"
				if x, has := cm["type"]; !has {
					bad("characteristic", "type", "missing", "?", fmt.Sprintf(`characteristic #%d of service #%d (%s) has no "type"`, k, j, styp), keys(cm))
				} else if s, isS := x.(string); !isS || s == "" {
					bad("characteristic", "type", "bad", "?", fmt.Sprintf(`characteristic #%d of service #%d (%s): "type" is %v, not a non-empty string`, k, j, styp, x), x)
				} else {
					cv.Type, ctyp = s, s
					if !uuidRe.MatchString(s) && !shortRe.MatchString(s) {
						bad("characteristic", "type", "malformed", s, fmt.Sprintf(`characteristic #%d of service #%d (%s): "type" is %q, neither a HAP short form (1..8 hex digits) nor a 128-bit UUID`, k, j, styp, s), x)
					}
				}
				where := fmt.Sprintf("characteristic #%d (%s) of service #%d (%s) of accessory #%d", k, ctyp, j, styp, i)
				if x, has := cm["iid"]; !has {
					bad("characteristic", "iid", "missing", ctyp, where+` has no "iid"`, keys(cm))
				} else if u, isU := uintOf(x); !isU {
					bad("characteristic", "iid", "bad", ctyp, fmt.Sprintf(`%s: "iid" is %v, not an unsigned integer`, where, x), x)
				} else {
					cv.IID = u
				}
				if x, has := cm["format"]; !has {
					bad("characteristic", "format", "missing", ctyp, where+` has no "format"`, keys(cm))
				} else if s, isS := x.(string); !isS || !hapFormats[s] {
					bad("characteristic", "format", "unknown", ctyp, fmt.Sprintf(`%s: "format" is %v, not a HAP format`, where, jsonText(x)), cm)
				} else {
					c.r.Distinct("format_seen", s)
				}
				if x, has := cm["perms"]; !has {
					bad("characteristic", "perms", "missing", ctyp, where+` has no "perms"`, keys(cm))
				} else {
					pa, isArr := x.([]interface{})
					valid := isArr && len(pa) > 0
					var ps []string
					for _, e := range pa {
						s, isS := e.(string)
						if !isS || !hapPerms[s] {
							valid = false
						}
						ps = append(ps, s)
					}
					if !valid {
						ok = false
						c.failTyped(rc, "json:perms:invalid", ctyp, fmt.Sprintf(`%s: %s: "perms" is %s, not a non-empty list of HAP permissions`, source, where, jsonText(x)),
							map[string]interface{}{"source": source, "fragment": fragment(cm)})
					} else {
						c.r.Distinct("perms_seen", strings.Join(ps, ","))
					}
				}
				c.r.Count("json_characteristics_checked", 1)
				sv.Chars = append(sv.Chars, cv)
			}
			c.r.Count("json_services_checked", 1)
			av.Svcs = append(av.Svcs, sv)
		}
		c.r.Count("json_accessories_checked", 1)
		view = append(view, av)
	}
	return view, ok
}

func head(b []byte, n int) []byte {
	if len(b) > n {
		return b[:n]
	}
	return b
}

func keys(m map[string]interface{}) []string {
	var k []string
	for x := range m {
		k = append(k, x)
	}
	sort.Strings(k)
	return k
}

func jsonText(v interface{}) string {
	b, _ := json.Marshal(v)
	return string(head(b, 120))
}

func fragment(v interface{}) string {
	b, _ := json.Marshal(v)
	return string(head(b, 400))
}

// ---------------------------------------------------------------- one recipe in process

type outcome struct {
	view     []accView // layout of build 1 read from the objects
	json     []accView // layout of build 1 read from the marshalled JSON (nil when not well-formed)
	accepted int
	ok       bool
}

func (c *checker) runRecipe(idx int, rc *recipe, builds int) outcome {
	r := c.r
	var views [][]accView
	var out outcome
	for bi := 0; bi < builds; bi++ {
		b := build(rc)
		r.Count("builds", 1)
		if b.panicTxt != "" {
			site := vf.PanicSite(b.panicTxt, "brutella/hc")
			c.fail(rc, "build:panic:"+site, "building the composition panicked: "+firstLine(b.panicTxt), map[string]interface{}{"stack": b.panicTxt})
			return out
		}
		r.Count("constructors_skipped_panic_or_nil", b.skipped)
		for _, o := range b.objs {
			if is, has := typeIssues.LoadAndDelete(o); has && o != nil {
				for _, what := range is.([]string) {
					c.fail(rc, "type:not-as-given", what+": neither the type the application gave nor (for the Apple base UUID) its short form", nil)
				}
			}
		}
		ov := viewOfObjects(b.cont)
		c.checkIDs(rc, "objects", ov)
		body, err := json.Marshal(b.cont)
		if err != nil {
			c.fail(rc, "json:marshal-error", "json.Marshal of the container failed: "+err.Error(), nil)
			views = append(views, ov)
			continue
		}
		r.Count("json_bytes_marshalled", len(body))
		jv, wellFormed := c.parseDB(rc, "marshalled", body)
		if wellFormed {
			c.checkIDs(rc, "marshalled", jv)
			if d, _ := diffViews(canon(ov), canon(jv)); d != "" {
				c.fail(rc, "json:id-differs-from-object", "the marshalled database does not carry the ids of the objects: (objects vs JSON, both ordered by id) "+d, nil)
			}
		}
		views = append(views, ov)
		if bi == 0 {
			out.view = ov
			if wellFormed {
				out.json = jv
			}
			out.accepted = len(b.cont.Accessories)
			out.ok = wellFormed
			c.account(rc, b)
		}
	}
	for bi := 1; bi < len(views); bi++ {
		if d, pos := diffViews(views[0], views[bi]); d != "" {
			ex := map[string]interface{}{"builds_compared": []int{1, bi + 1}}
			if pos >= 0 && pos < len(views[0]) && pos < len(views[bi]) {
				ex["layout_build_1"] = compact(views[0][pos])
				ex[fmt.Sprintf("layout_build_%d", bi+1)] = compact(views[bi][pos])
			}
			c.fail(rc, "ids:not-deterministic", fmt.Sprintf("the same recipe built twice from fresh objects gives different ids: (build 1 vs build %d) %s", bi+1, d), ex)
			break
		}
	}
	r.Count("rebuild_comparisons", len(views)-1)
	return out
}

func firstLine(s string) string {
	if i := strings.IndexByte(s, '\n'); i >= 0 {
		return s[:i]
	}
	return s
}

// account fills the coverage counters from build 1.
func (c *checker) account(rc *recipe, b *built) {
	r := c.r
	inCont := map[*accessory.Accessory]bool{}
	for _, a := range b.cont.Accessories {
		inCont[a] = true
	}
	explicitSeen := false
	for i, sp := range rc.Accs {
		r.Count("accessories_added", 1)
		a := b.objs[i]
		if a == nil {
			continue
		}
		switch {
		case sp.Readd > 0:
			r.Count("same_object_added_again", 1)
			if b.errs[i] != "" {
				r.Count("same_object_added_again_refused", 1)
			}
		case b.errs[i] != "" && sp.ID == 0:
			r.Count("auto_id_rejected_due_to_explicit", 1)
			if !explicitSeen {
				r.Count("auto_id_rejected_without_explicit_before", 1)
			}
		case b.errs[i] != "":
			r.Count("explicit_id_rejected_as_duplicate", 1)
		case sp.ID == 0:
			r.Count("accepted_with_automatic_id", 1)
		default:
			r.Count("accepted_with_explicit_id", 1)
		}
		if sp.ID != 0 {
			explicitSeen = true
		}
		if (b.errs[i] == "") != inCont[a] && sp.Readd == 0 {
			r.Count("add_result_disagrees_with_membership", 1)
		}
		if sp.Readd > 0 {
			continue
		}
		r.Distinct("accessory_ctor", sp.Ctor)
		for _, ss := range sp.Services {
			r.Distinct("service_ctor", ss.Ctor)
			for _, cn := range ss.Chars {
				r.Distinct("char_ctor", cn)
			}
		}
		for _, s := range a.Services {
			if s.Hidden {
				r.Count("hidden_services_built", 1)
			}
			if s.Primary {
				r.Count("primary_services_built", 1)
			}
			r.Count("links_built", len(s.Linked))
		}
	}
	r.Count("accessories_accepted", len(b.cont.Accessories))
	r.Distinct("accessories_per_composition", strconv.Itoa(len(rc.Accs)))
	r.Distinct("id_policy", rc.Kind)
	mx := 0
	for _, a := range b.cont.Accessories {
		if len(a.Services) > mx {
			mx = len(a.Services)
		}
	}
	r.Distinct("max_services_per_accessory", strconv.Itoa(mx))
}

// ---------------------------------------------------------------- served database

// serveOnce hands fresh objects of the recipe to a new transport on dir and fetches the database.
func (c *checker) serveOnce(rc *recipe, dir string, me *refctl.Identity, run int) (view []accView, ok bool) {
	r := c.r
	objs, _ := objects(rc)
	var list []*accessory.Accessory
	for _, a := range objs {
		if a != nil {
			list = append(list, a)
		}
	}
	if len(list) == 0 {
		return nil, false
	}
	a, err := app.Start(dir, "00102003", list[0], list[1:]...)
	if err != nil {
		r.Inconclusive(fmt.Sprintf("served: transport did not start: %v", err))
		return nil, false
	}
	defer a.Stop()
	ent, found := app.AccessoryEntity(dir)
	if !found {
		r.Inconclusive("served: accessory entity not found in storage")
		return nil, false
	}
	cn, err := a.Verified(me, ent.PublicKey, ent.Name)
	if err != nil {
		r.Inconclusive(fmt.Sprintf("served: pair-verify failed: %v", err))
		return nil, false
	}
	defer cn.Close()
	cn.Timeout = 30 * time.Second
	m, err := cn.Do("GET", "/accessories", "", nil)
	if err != nil {
		r.Inconclusive(fmt.Sprintf("served: GET /accessories failed: %v", err))
		return nil, false
	}
	if m.Status != 200 {
		c.fail(rc, "served:status", fmt.Sprintf("GET /accessories answered %d", m.Status), nil)
		return nil, false
	}
	r.Count("served_databases", 1)
	r.Count("json_bytes_served", len(m.Body))
	source := "served"
	if run > 1 {
		source = "served after restart"
	}
	sv, wellFormed := c.parseDB(rc, source, m.Body)
	if !wellFormed {
		return nil, false
	}
	c.checkIDs(rc, source, sv)
	r.Count("served_accessories", len(sv))
	if run == 2 {
		c.afterWrites(rc, cn, m.Body, sv)
	}
	return sv, true
}

// afterWrites: the database has to be well-formed whatever controllers have written since.  A verified controller
// writes values nobody sends by accident (numbers as strings that parse to an infinity or to no number, the largest
// doubles, empty and very long strings) to up to 16 writable characteristics, those without declared bounds first; the
// accessory may refuse or clamp each of them; then the database is fetched again: 200, well-formed, the same ids.
func (c *checker) afterWrites(rc *recipe, cn *refctl.Conn, body []byte, before []accView) {
	r := c.r
	db, err := refctl.ParseAttrDB(body)
	if err != nil {
		return
	}
	type tgt struct {
		aid uint64
		ch  refctl.AttrChar
	}
	var open, bounded []tgt
	for _, a := range db.Accessories {
		for _, sv := range a.Services {
			for _, ch := range sv.Characteristics {
				if !ch.Has("pw") || ch.Format == "tlv8" || ch.Format == "data" {
					continue
				}
				if len(ch.MaxValue) == 0 && len(ch.MinValue) == 0 {
					if ch.Format == "float" {
						open = append([]tgt{{a.AID, ch}}, open...)
						r.Count("writable_floats_without_bounds_in_served_databases", 1)
					} else {
						open = append(open, tgt{a.AID, ch})
					}
				} else {
					bounded = append(bounded, tgt{a.AID, ch})
				}
			}
		}
	}
	targets := append(open, bounded...)
	if len(targets) > 16 {
		targets = append(targets[:12], bounded[max(0, len(bounded)-4):]...)
	}
	if len(targets) == 0 {
		return
	}
	hostile := []string{`"1e999"`, `"-1e999"`, `"inf"`, `"NaN"`, `"+Inf"`, `1.7976931348623157e308`, `-1.7976931348623157e308`, `""`, `"` + strings.Repeat("9", 400) + `"`, `18446744073709551615`, `"0x7fffffffffffffff"`, `1e400`}
	var written []string
	for k, t := range targets {
		v := json.RawMessage(hostile[(k+len(rc.Accs)+len(written))%len(hostile)])
		if t.ch.Format == "float" && k%4 != 3 {
			v = json.RawMessage(hostile[(k+len(rc.Accs))%5]) // text that parses to an infinity or to no number
		}
		m, err := cn.Do("PUT", "/characteristics", refctl.ContentJSON, refctl.PutBody(refctl.CharValue{AID: t.aid, IID: t.ch.IID, Value: &v}))
		if err != nil {
			c.fail(rc, "served:after-writes:connection-lost", fmt.Sprintf("the connection was lost on PUT %d.%d (format %s) value %s: %v", t.aid, t.ch.IID, t.ch.Format, head(v, 40), err), nil)
			return
		}
		_ = m
		r.Count("hostile_values_written_before_the_database_is_fetched_again", 1)
		written = append(written, fmt.Sprintf("%d.%d %s <- %s", t.aid, t.ch.IID, t.ch.Format, head(v, 30)))
	}
	m, err := cn.Do("GET", "/accessories", "", nil)
	if err != nil {
		c.fail(rc, "served:after-writes:no-answer", fmt.Sprintf("GET /accessories after %d value writes: %v", len(written), err), map[string]interface{}{"writes": written})
		return
	}
	if m.Status != 200 {
		c.fail(rc, "served:after-writes:status", fmt.Sprintf("GET /accessories answered %d (%s) after a controller wrote %d values", m.Status, head(m.Body, 80), len(written)), map[string]interface{}{"writes": written})
		return
	}
	after, ok := c.parseDB(rc, "served after value writes", m.Body)
	if !ok {
		return
	}
	if d, _ := diffViews(canon(before), canon(after)); d != "" {
		c.fail(rc, "ids:changed-by-value-writes", "after value writes of a controller the served database carries other ids: "+d, map[string]interface{}{"writes": written})
	}
	r.Count("databases_fetched_again_after_value_writes", 1)
}

// serve is the restart of the property: the recipe is served by a transport, the transport is
// stopped, fresh objects are built and served by a second transport on the same storage; both
// databases must carry the same ids.  How the served ids relate to those of an accessory.Container
// filled directly is only counted (a transport may legitimately number differently).
func (c *checker) serve(idx int, rc *recipe, marshalled []accView) {
	r := c.r
	dir := app.ScratchDir(r.WorkDir(), "served")
	defer os.RemoveAll(dir)
	me := refctl.NewIdentity(fmt.Sprintf("c14-controller-%d", idx), r.RandN("c14-ctl", idx))
	app.StoreController(dir, me)
	first, ok := c.serveOnce(rc, dir, me, 1)
	if !ok {
		return
	}
	second, ok := c.serveOnce(rc, dir, me, 2)
	if !ok {
		return
	}
	c1, c2 := canon(first), canon(second)
	if d, pos := diffViews(c1, c2); d != "" {
		ex := map[string]interface{}{}
		if pos >= 0 && pos < len(c1) && pos < len(c2) {
			ex["layout_first_run"] = compact(c1[pos])
			ex["layout_after_restart"] = compact(c2[pos])
		}
		c.fail(rc, "ids:not-deterministic:served", "the same recipe rebuilt from fresh objects and served again after a restart carries different ids: (first run vs after restart, both ordered by id) "+d, ex)
	}
	r.Count("served_restart_comparisons", 1)
	if d, _ := diffViews(canon(marshalled), c1); d == "" {
		r.Count("served_equals_directly_filled_container", 1)
	} else {
		r.Count("served_differs_from_directly_filled_container", 1)
	}
}

// ---------------------------------------------------------------- recipe generation

type gen struct {
	accs  []string
	svcs  []string
	chars []string
}

func (g *gen) randSvc(rnd *rand.Rand) svcSpec {
	var s svcSpec
	if rnd.Intn(6) == 0 {
		s.Ctor = "custom"
		if rnd.Intn(3) > 0 {
			s.Vendor = 1 + rnd.Intn(len(vendorTypes))
		}
		for n := rnd.Intn(7); n > 0; n-- {
			s.Chars = append(s.Chars, g.chars[rnd.Intn(len(g.chars))])
		}
		return s
	}
	s.Ctor = g.svcs[rnd.Intn(len(g.svcs))]
	if rnd.Intn(4) == 0 {
		for n := 1 + rnd.Intn(3); n > 0; n-- {
			s.Chars = append(s.Chars, g.chars[rnd.Intn(len(g.chars))])
		}
	}
	return s
}

func (g *gen) randFlags(rnd *rand.Rand, approxServices int) []flagOp {
	var out []flagOp
	if rnd.Intn(3) == 0 {
		return nil
	}
	for n := 1 + rnd.Intn(4); n > 0; n-- {
		f := flagOp{Svc: rnd.Intn(approxServices + 2)}
		switch rnd.Intn(4) {
		case 0:
			f.Hidden = true
		case 1:
			f.Primary = true
		case 2:
			f.Hidden, f.Primary = true, true
		}
		for l := rnd.Intn(4); l > 0; l-- {
			f.Linked = append(f.Linked, rnd.Intn(approxServices+2))
		}
		out = append(out, f)
	}
	return out
}

func (g *gen) randAcc(rnd *rand.Rand) accSpec {
	var a accSpec
	if rnd.Intn(3) == 0 {
		a.Ctor = g.accs[rnd.Intn(len(g.accs))]
		if rnd.Intn(3) == 0 { // arbitrary services on top of a ready-made accessory
			for n := 1 + rnd.Intn(3); n > 0; n-- {
				a.Services = append(a.Services, g.randSvc(rnd))
			}
		}
		a.Flags = g.randFlags(rnd, 2+len(a.Services))
		a.LinkFirst = rnd.Intn(2) == 0
		if rnd.Intn(10) == 0 {
			a.Remove, a.Again = true, rnd.Intn(3) != 0
		}
		return a
	}
	a.Ctor = "New"
	a.Type = 1 + rnd.Intn(30)
	n := rnd.Intn(7)
	switch rnd.Intn(12) {
	case 0:
		n = 0
	case 1:
		n = 10 + rnd.Intn(25)
	}
	if n > 0 && rnd.Intn(5) == 0 { // the same service type many times
		s := g.randSvc(rnd)
		for i := 0; i < n; i++ {
			a.Services = append(a.Services, s)
		}
	} else {
		for i := 0; i < n; i++ {
			a.Services = append(a.Services, g.randSvc(rnd))
		}
	}
	a.Flags = g.randFlags(rnd, 1+n)
	a.LinkFirst = rnd.Intn(2) == 0
	if rnd.Intn(10) == 0 {
		a.Remove, a.Again = true, rnd.Intn(3) != 0
	}
	return a
}

var hugeIDs = []uint64{1 << 31, 1<<32 - 1, 1 << 32, 1<<53 + 1, 1 << 63, math.MaxUint64 - 1, math.MaxUint64}

func (g *gen) randRecipe(rnd *rand.Rand) *recipe {
	n := 1
	switch x := rnd.Intn(10); {
	case x < 1:
		n = 1
	case x < 5:
		n = 2 + rnd.Intn(4)
	case x < 8:
		n = 6 + rnd.Intn(10)
	default:
		n = 16 + rnd.Intn(25)
	}
	rc := &recipe{}
	policies := []string{"automatic", "explicit-distinct", "mixed", "colliding", "huge"}
	rc.Kind = policies[rnd.Intn(len(policies))]
	perm := rnd.Perm(n + 5)
	for i := 0; i < n; i++ {
		a := g.randAcc(rnd)
		switch rc.Kind {
		case "automatic":
		case "explicit-distinct":
			a.ID = uint64(perm[i] + 1)
		case "mixed":
			if rnd.Intn(2) == 0 {
				a.ID = uint64(1 + rnd.Intn(n+3))
			}
		case "colliding":
			if rnd.Intn(3) != 0 {
				a.ID = uint64(1 + rnd.Intn(3))
			}
		case "huge":
			switch rnd.Intn(3) {
			case 0:
				a.ID = hugeIDs[rnd.Intn(len(hugeIDs))]
			case 1:
				a.ID = uint64(1 + rnd.Intn(n+3))
			}
		}
		rc.Accs = append(rc.Accs, a)
	}
	if rnd.Intn(20) == 0 && n < 40 { // the same object handed to the container a second time
		rc.Kind += "+same-object-again"
		at := 1 + rnd.Intn(n)
		of := 1 + rnd.Intn(at)
		rc.Accs = append(rc.Accs[:at], append([]accSpec{{Ctor: rc.Accs[of-1].Ctor, Readd: of}}, rc.Accs[at:]...)...)
		// later Readd references do not exist (only one per recipe), so no renumbering is needed
	}
	return rc
}

// fixedRecipes are run at every seed: every constructor, the id patterns worth naming, the sweeps
// that put every service and every characteristic constructor of the catalog into a composition.
var unboundedFloatsRecipe bool

// randSvcFor: the i-th service of a generated large accessory (catalog constructors in turn, every fifth one custom)
func (g *gen) randSvcFor(i int) svcSpec {
	if i%5 == 4 || len(g.svcs) == 0 {
		return svcSpec{Ctor: "custom"}
	}
	return svcSpec{Ctor: g.svcs[i%len(g.svcs)]}
}

func (g *gen) fixedRecipes() []*recipe {
	var out []*recipe
	// a refused (duplicate id) or removed accessory whose services are reused in its replacement
	for i, n := range g.accs {
		if i%3 != 0 {
			continue
		}
		out = append(out, &recipe{Kind: "transplant-after-refusal", Accs: []accSpec{{Ctor: g.accs[(i+1)%len(g.accs)], ID: 5}, {Ctor: n, ID: 5}, {Ctor: "New", Type: 5, Transplant: 2}}})
		out = append(out, &recipe{Kind: "transplant-after-removal", Accs: []accSpec{{Ctor: g.accs[(i+1)%len(g.accs)]}, {Ctor: n, Remove: true}, {Ctor: "New", Type: 5, ID: 9, Transplant: 2}}})
	}
	for _, n := range g.accs {
		out = append(out, &recipe{Kind: "single-automatic", Accs: []accSpec{{Ctor: n}}})
		out = append(out, &recipe{Kind: "single-explicit", Accs: []accSpec{{Ctor: n, ID: 7}}})
	}
	all := &recipe{Kind: "all-constructors-automatic"}
	all2 := &recipe{Kind: "all-constructors-mixed"}
	for i, n := range g.accs {
		all.Accs = append(all.Accs, accSpec{Ctor: n})
		id := uint64(0)
		if i%2 == 1 {
			id = uint64(len(g.accs) - i)
		}
		all2.Accs = append(all2.Accs, accSpec{Ctor: n, ID: id})
	}
	out = append(out, all, all2)
	// the float characteristics that declare no bounds, in one service, twice (always served: afterWrites aims at them)
	var open []string
	for _, n := range g.chars {
		if n == "NewDigitalZoom" || n == "NewOpticalZoom" || n == "NewTunneledAccessoryStateNumber" {
			open = append(open, n)
		}
	}
	if len(open) > 0 {
		unboundedFloatsRecipe = true
		out = append(out, &recipe{Kind: "unbounded-floats", Accs: []accSpec{{Ctor: "New", Type: 8, Services: []svcSpec{{Ctor: "custom", Chars: open}, {Ctor: "custom", Chars: open}}}}})
	}
	// accessories far larger than any constructor builds: 99 / 100 / 101 / 150 / 300 services, and services with
	// 99 / 100 / 101 / 256 / 300 characteristics (a camera, a bridge, a generated profile), alone and followed by a
	// normal accessory
	for _, k := range []int{99, 100, 101, 150, 300} {
		big := accSpec{Ctor: "New", Type: 8}
		for i := 0; i < k; i++ {
			big.Services = append(big.Services, g.randSvcFor(i))
		}
		out = append(out, &recipe{Kind: fmt.Sprintf("accessory-with-%d-services", k), Accs: []accSpec{big, {Ctor: g.accs[k%len(g.accs)]}}})
	}
	for _, k := range []int{99, 100, 101, 256, 300} {
		var chars []string
		for i := 0; i < k; i++ {
			chars = append(chars, g.chars[(i*7+k)%len(g.chars)])
		}
		out = append(out, &recipe{Kind: fmt.Sprintf("service-with-%d-characteristics", k),
			Accs: []accSpec{{Ctor: "New", Type: 8, Services: []svcSpec{{Ctor: "custom", Chars: chars}, {Ctor: "custom"}}}, {Ctor: g.accs[k%len(g.accs)]}}})
	}
	sw := "NewSwitch"
	if _, ok := svcByName[sw]; !ok && len(g.svcs) > 0 {
		sw = g.svcs[0]
	}
	plain := func(id uint64) accSpec {
		return accSpec{Ctor: "New", Type: 8, ID: id, Services: []svcSpec{{Ctor: sw}}}
	}
	patterns := [][]uint64{{2, 0, 0}, {0, 1}, {1, 0}, {3, 0, 0, 0}, {0, 0, 2}, {1, 1}, {5, 5, 0}, {2, 1, 0, 0}, {0, 0, 0, 1, 2, 3, 4},
		{math.MaxUint64, 0}, {0, math.MaxUint64, math.MaxUint64}, {4, 3, 2, 1, 0, 0, 0, 0, 0}, {0, 2, 0, 4, 0, 6, 0}, {1 << 32, 0, 1}, {2, 0, 2, 0, 1}}
	for _, p := range patterns {
		rc := &recipe{Kind: "id-pattern"}
		for _, id := range p {
			rc.Accs = append(rc.Accs, plain(id))
		}
		out = append(out, rc)
	}
	forty := &recipe{Kind: "forty-automatic"}
	for i := 0; i < 40; i++ {
		forty.Accs = append(forty.Accs, plain(0))
	}
	out = append(out, forty)
	// the same object twice
	out = append(out, &recipe{Kind: "same-object-again", Accs: []accSpec{plain(0), {Ctor: "New", Readd: 1}, plain(0)}})
	// removal: of a member, of a refused duplicate (cleanup), each followed by adding the object again
	rm := func(id uint64, again bool) accSpec { a := plain(id); a.Remove, a.Again = true, again; return a }
	out = append(out, &recipe{Kind: "remove-member-and-readd", Accs: []accSpec{plain(0), rm(0, true), plain(0)}})
	out = append(out, &recipe{Kind: "remove-refused-duplicate-and-readd", Accs: []accSpec{plain(7), rm(7, true), plain(0)}})
	out = append(out, &recipe{Kind: "remove-refused-duplicate-and-readd", Accs: []accSpec{plain(2), plain(0), rm(0, true), plain(0)}})
	out = append(out, &recipe{Kind: "remove-refused-duplicate", Accs: []accSpec{plain(3), rm(3, false), plain(3), plain(0)}})
	out = append(out, &recipe{Kind: "same-object-again", Accs: []accSpec{plain(1), plain(0), {Ctor: "New", Readd: 2}, plain(0)}})
	// one accessory with the same service type sixty times, chained by links, some hidden, one primary
	many := accSpec{Ctor: "New", Type: 8}
	for i := 0; i < 60; i++ {
		many.Services = append(many.Services, svcSpec{Ctor: sw})
		f := flagOp{Svc: i + 1, Linked: []int{i + 2, 0}, Hidden: i%7 == 3, Primary: i == 0}
		many.Flags = append(many.Flags, f)
	}
	out = append(out, &recipe{Kind: "same-service-type-60x", Accs: []accSpec{many, many}})
	manyFirst := many
	manyFirst.LinkFirst = true
	out = append(out, &recipe{Kind: "same-service-type-60x-linked-before-added", Accs: []accSpec{manyFirst, many}})
	// sweep: every service constructor
	sweep := &recipe{Kind: "service-sweep"}
	for i := 0; i < len(g.svcs); i += 6 {
		a := accSpec{Ctor: "New", Type: 1 + i%20}
		for j := i; j < i+6 && j < len(g.svcs); j++ {
			a.Services = append(a.Services, svcSpec{Ctor: g.svcs[j]})
		}
		a.Flags = []flagOp{{Svc: 1, Primary: true, Linked: []int{2, 3}}, {Svc: 4, Hidden: true, Linked: []int{1}}}
		sweep.Accs = append(sweep.Accs, a)
		if len(sweep.Accs) == 40 {
			out = append(out, sweep)
			sweep = &recipe{Kind: "service-sweep"}
		}
	}
	if len(sweep.Accs) > 0 {
		out = append(out, sweep)
	}
	// sweep: every characteristic constructor inside custom services
	csweep := &recipe{Kind: "characteristic-sweep"}
	for i := 0; i < len(g.chars); i += 24 {
		a := accSpec{Ctor: "New", Type: 1}
		for j := i; j < i+24 && j < len(g.chars); j += 8 {
			s := svcSpec{Ctor: "custom", Vendor: 1 + (j/8)%len(vendorTypes)}
			for k := j; k < j+8 && k < i+24 && k < len(g.chars); k++ {
				s.Chars = append(s.Chars, g.chars[k])
			}
			a.Services = append(a.Services, s)
		}
		csweep.Accs = append(csweep.Accs, a)
		if len(csweep.Accs) == 40 {
			out = append(out, csweep)
			csweep = &recipe{Kind: "characteristic-sweep"}
		}
	}
	if len(csweep.Accs) > 0 {
		out = append(out, csweep)
	}
	return out
}

// ---------------------------------------------------------------- main

func summary(rc *recipe, o outcome) interface{} {
	var lay []string
	for i, a := range o.view {
		if i == 3 {
			lay = append(lay, fmt.Sprintf("... %d more", len(o.view)-3))
			break
		}
		s := compact(a)
		if len(s) > 300 {
			s = s[:300] + "..."
		}
		lay = append(lay, s)
	}
	ids := make([]uint64, len(rc.Accs))
	for i, a := range rc.Accs {
		ids[i] = a.ID
	}
	return map[string]interface{}{"kind": rc.Kind, "requested_ids": ids, "accepted_aids": aids(o.view), "layout": lay}
}

func main() {
	r := vf.Start("C14", "exploration")
	r.SetRule("a case = one recipe (ordered list of accessories: catalog constructor or accessory.New + catalog/custom services + extra characteristics, " +
		"hidden/primary/linked flags, requested id 0=automatic or explicit incl. collisions and huge values, optionally the same object added again), " +
		"built 2x (3x for a subset) into a fresh Container, ids read from the objects and from json.Marshal decoded generically; a subset also served by a real transport " +
		"and read by refctl; non-trivial = distinct recipe (by content) with at least one accepted accessory")
	r.Assume("accepted = present in Container.Accessories after all AddAccessory calls (what a controller is served)")
	r.Assume("an automatic id that collides with an explicit id given earlier may be refused with an error (counted, not judged); a service object shared by two accessories is a user error and is not generated")
	r.Assume("format \"int\" (HAP specification) is accepted besides hc's \"int32\"")
	r.Watchdog(time.Duration(r.Pick(15, 60)) * time.Minute)

	g := &gen{}
	for _, c := range catalog.Accessories {
		accByName[c.Name] = c
		g.accs = append(g.accs, c.Name)
	}
	for _, c := range catalog.Services {
		svcByName[c.Name] = c
		g.svcs = append(g.svcs, c.Name)
	}
	for _, c := range catalog.Chars {
		charByName[c.Name] = c
		g.chars = append(g.chars, c.Name)
	}
	r.Extra("catalog_source", catalog.Source)
	r.Extra("catalog_sizes", map[string]int{"accessories": len(g.accs), "services": len(g.svcs), "characteristics": len(g.chars)})
	if len(g.accs) == 0 || len(g.svcs) == 0 || len(g.chars) == 0 {
		r.Inconclusive("the generated catalog is empty (harness/catalog/zz_generated.go missing?)")
		r.Finish()
	}
	// constructors that panic or return nil are C15's subject; they are left out of the random alphabet
	// (a recipe that names one simply skips it) but they are counted
	usable := func(names []string, try func(string) bool) []string {
		var out []string
		for _, n := range names {
			if try(n) {
				out = append(out, n)
			} else {
				r.Count("catalog_constructors_unusable", 1)
				r.Distinct("unusable_constructor", n)
			}
		}
		return out
	}
	g.accs = usable(g.accs, func(n string) bool {
		a, p := catalog.SafeAccessory(accByName[n], catalog.DefaultInfo())
		return a != nil && p == ""
	})
	g.svcs = usable(g.svcs, func(n string) bool { s, p := catalog.SafeService(svcByName[n]); return s != nil && p == "" })
	g.chars = usable(g.chars, func(n string) bool { c, p := catalog.SafeChar(charByName[n]); return c != nil && p == "" })
	if len(g.accs) == 0 || len(g.svcs) == 0 || len(g.chars) == 0 {
		r.Inconclusive("no usable constructor in one of the catalog tables")
		r.Finish()
	}

	recipes := g.fixedRecipes()
	nFixed := len(recipes)
	total := r.Pick(300, 10000)
	for i := 0; len(recipes) < total; i++ {
		recipes = append(recipes, g.randRecipe(r.RandN("c14-recipe", i)))
	}
	r.Extra("recipes", map[string]int{"fixed": nFixed, "random": len(recipes) - nFixed})

	c := &checker{r: r}
	outcomes := make([]outcome, len(recipes))
	var wg sync.WaitGroup
	jobs := make(chan int)
	for w := 0; w < 8; w++ {
		wg.Add(1)
		go func() {
			defer wg.Done()
			for i := range jobs {
				rc := recipes[i]
				builds := 2
				if i < nFixed || i%4 == 0 {
					builds = 3
					r.Count("recipes_built_three_times", 1)
				}
				r.Eval()
				r.Guard("recipe", func() { outcomes[i] = c.runRecipe(i, rc, builds) })
				if outcomes[i].accepted > 0 {
					b, _ := json.Marshal(rc)
					r.Nontrivial(string(b))
				}
				r.SampleAt(i, func() interface{} { return summary(rc, outcomes[i]) })
			}
		}()
	}
	for i := range recipes {
		jobs <- i
	}
	close(jobs)
	wg.Wait()

	// served subset: the named id patterns first, then a spread of the random recipes
	nServed := r.Pick(30, 300)
	var servedIdx []int
	for i := 0; i < nFixed && len(servedIdx) < nServed/2; i++ {
		k := recipes[i].Kind
		if k == "id-pattern" || k == "all-constructors-mixed" || k == "service-sweep" || k == "characteristic-sweep" || k == "same-service-type-60x" || k == "same-object-again" || k == "unbounded-floats" {
			servedIdx = append(servedIdx, i)
		}
	}
	if rest := nServed - len(servedIdx); rest > 0 && len(recipes) > nFixed {
		step := (len(recipes) - nFixed) / rest
		if step < 1 {
			step = 1
		}
		for i := nFixed; i < len(recipes) && len(servedIdx) < nServed; i += step {
			servedIdx = append(servedIdx, i)
		}
	}
	sjobs := make(chan int)
	for w := 0; w < 4; w++ {
		wg.Add(1)
		go func() {
			defer wg.Done()
			for i := range sjobs {
				if !outcomes[i].ok {
					continue // already reported by the in-process pass
				}
				r.Eval()
				r.Guard("served", func() { c.serve(i, recipes[i], outcomes[i].json) })
			}
		}()
	}
	for _, i := range servedIdx {
		sjobs <- i
	}
	close(sjobs)
	wg.Wait()

	// served size sweep: every body length of a contiguous range (all residues modulo chunk and frame size)
	for i, n := range []int{1, 6, 23}[:r.Pick(2, 3)] {
		n, span := n, r.Pick(2100, 4200)
		if i > 0 && r.Tier == "quick" {
			span = 2100
		}
		r.Eval()
		r.Guard("size sweep", func() { c.sizeSweep(r, n, span) })
	}
	r.Floor("size_sweep_length_mod_2048", r.DistinctN("size_sweep_length_mod_2048"), 2048)
	r.Floor("size_sweep_bodies_of_a_multiple_of_the_chunk_size", int(r.Counter("size_sweep_bodies_of_a_multiple_of_the_chunk_size")), 2)
	r.Floor("size_sweep_answers_abandoned_by_another_controller", int(r.Counter("size_sweep_answers_abandoned_by_another_controller")), 100)
	r.Floor("databases_fetched_again_after_value_writes", int(r.Counter("databases_fetched_again_after_value_writes"))+1000*r.ViolationCount(), 20)
	if unboundedFloatsRecipe {
		r.Floor("writable_floats_without_bounds_in_served_databases", int(r.Counter("writable_floats_without_bounds_in_served_databases"))+1000*r.ViolationCount(), 2)
	}

	c.flushTyped()

	// hc's own log would otherwise fill the monitor log
	_ = app.TakeHCLog()

	r.Floor("accessory constructors composed", r.DistinctN("accessory_ctor"), len(g.accs)+1)
	r.Floor("service constructors composed", r.DistinctN("service_ctor"), len(g.svcs)+1)
	r.Floor("characteristic constructors composed", r.DistinctN("char_ctor"), len(g.chars))
	r.Floor("accessories_accepted", int(r.Counter("accessories_accepted")), total)
	r.Floor("accepted_with_automatic_id", int(r.Counter("accepted_with_automatic_id")), total/2)
	r.Floor("accepted_with_explicit_id", int(r.Counter("accepted_with_explicit_id")), total/2)
	r.Floor("explicit_id_rejected_as_duplicate", int(r.Counter("explicit_id_rejected_as_duplicate")), 10)
	r.Floor("rebuild_comparisons", int(r.Counter("rebuild_comparisons")), total)
	r.Floor("linked_refs_checked", int(r.Counter("linked_refs_checked")), total/4)
	r.Floor("json_hidden_services", int(r.Counter("json_hidden_services")), total/10)
	r.Floor("json_primary_services", int(r.Counter("json_primary_services")), total/10)
	r.Floor("served_restart_comparisons", int(r.Counter("served_restart_comparisons")), nServed*9/10)
	r.Count("vendor_type_services_built", int(vendorServices.Load()))
	r.Floor("vendor_type_services_built", int(vendorServices.Load()), 100)
	r.Finish()
}

// C15 — the characteristic and service catalog matches the HomeKit metadata.
//
// Harness: harness/catalog (generated from the AST of the tree under test by cmd/gencatalog at every
// check) holds one closure per exported New* constructor of characteristic, service and accessory.
// The monitor calls every one of them under recover and looks at the returned object.
//
// Oracle (independent of hc's generator): $VERIF_REPO/gen/metadata.json is read here with
// encoding/json; type identifiers are minified by this file's own rule; formats, permissions and units
// are compared as the literal strings HAP defines ("pr", "pw", "ev", "uint8", "percentage" ...), not
// through hc's constants.
//
//   - every constructor: no panic, non-nil object, non-nil embedded base, a type identifier, a HAP
//     format, permissions; if the object is readable its default value exists, has the Go type of its
//     format and lies in its own bounds (otherwise its typed getter panics / iOS rejects it);
//     New<X>().Type equals the value the source declares for const Type<X>, when it declares one;
//   - every metadata characteristic: at least one constructor whose object has the entry's type id,
//     and all such objects have exactly the entry's format, permissions (read→pr, write→pw,
//     cnotify→ev), unit, MinimumValue, MaximumValue, StepValue;
//   - every metadata service: at least one constructor whose object has the entry's type id; all such
//     objects hold every required characteristic and nothing outside required ∪ optional;
//   - every service: no nil characteristic, no characteristic type twice;
//   - every accessory: non-nil, at least one service, the Accessory Information service first.
//
// The space is finite and explored completely at every run (quick and thorough are the same).
package main

import (
	"encoding/json"
	"fmt"
	"math"
	"os"
	"path/filepath"
	"regexp"
	"sort"
	"strings"

	"github.com/brutella/hc/characteristic"
	"github.com/brutella/hc/service"

	"verif/harness/catalog"
	"verif/vf"
)

const appleSuffix = "-0000-1000-8000-0026BB765291"

type metaChar struct {
	UUID        string
	Name        string
	Format      string
	Unit        string
	Properties  []string
	Constraints json.RawMessage

	typ            string
	perms          []string // expected, sorted
	min, max, step *float64
	ident          string
}

type metaSvc struct {
	UUID                    string
	Name                    string
	RequiredCharacteristics []string
	OptionalCharacteristics []string

	typ      string
	required []string // minified
	optional map[string]bool
	ident    string
}

type metadata struct {
	Characteristics []*metaChar
	Services        []*metaSvc
}

// minify is this monitor's own statement of HAP's short form of an Apple-defined UUID: drop the base
// UUID suffix and the leading zeros of the first group.  Other UUIDs stay as they are.
func minify(uuid string) string {
	u := strings.ToUpper(strings.TrimSpace(uuid))
	if !strings.HasSuffix(u, appleSuffix) {
		return uuid
	}
	short := strings.TrimLeft(strings.TrimSuffix(u, appleSuffix), "0")
	if short == "" {
		short = "0"
	}
	return short
}

// ident makes a signature-friendly name from a metadata name ("PM2.5 Density" -> "PM2_5Density").
func ident(name string) string {
	var b strings.Builder
	up := true
	for _, r := range name {
		switch {
		case r == ' ':
			up = true
		case r == '.':
			b.WriteByte('_')
		case (r >= 'a' && r <= 'z') || (r >= 'A' && r <= 'Z') || (r >= '0' && r <= '9'):
			if up && r >= 'a' && r <= 'z' {
				r = r - 'a' + 'A'
			}
			up = false
			b.WriteRune(r)
		}
	}
	return b.String()
}

func num(v interface{}) (float64, bool) {
	switch x := v.(type) {
	case int:
		return float64(x), true
	case int8:
		return float64(x), true
	case int16:
		return float64(x), true
	case int32:
		return float64(x), true
	case int64:
		return float64(x), true
	case uint:
		return float64(x), true
	case uint8:
		return float64(x), true
	case uint16:
		return float64(x), true
	case uint32:
		return float64(x), true
	case uint64:
		return float64(x), true
	case float32:
		return float64(x), true
	case float64:
		return x, true
	}
	return 0, false
}

func show(v interface{}) string {
	if v == nil {
		return "<nil>"
	}
	return fmt.Sprintf("%T(%v)", v, v)
}

func showP(p *float64) string {
	if p == nil {
		return "<none>"
	}
	return fmt.Sprintf("%v", *p)
}

// sameNumber compares an optional metadata number with an hc field (nil / int / float64).
func sameNumber(want *float64, got interface{}) bool {
	if want == nil {
		return got == nil
	}
	g, ok := num(got)
	return ok && g == *want
}

func permSet(p []string) []string {
	m := map[string]bool{}
	for _, s := range p {
		m[s] = true
	}
	out := make([]string, 0, len(m))
	for s := range m {
		out = append(out, s)
	}
	sort.Strings(out)
	return out
}

func has(list []string, s string) bool {
	for _, x := range list {
		if x == s {
			return true
		}
	}
	return false
}

// goTypeOfFormat is the Go type hc documents for a value of each HAP format.
var goTypeOfFormat = map[string]string{
	"bool": "bool", "float": "float64", "string": "string", "tlv8": "string", "data": "string",
	"uint8": "int", "uint16": "int", "uint32": "int", "uint64": "int", "int32": "int", "int": "int",
}

func loadMetadata(r *vf.Run, repo string) *metadata {
	path := filepath.Join(repo, "gen", "metadata.json")
	b, err := os.ReadFile(path)
	if err != nil {
		r.Inconclusive("cannot read " + path + ": " + err.Error())
		return nil
	}
	var m metadata
	if err := json.Unmarshal(b, &m); err != nil {
		r.Inconclusive("cannot parse " + path + ": " + err.Error())
		return nil
	}
	for _, c := range m.Characteristics {
		c.typ = minify(c.UUID)
		c.ident = ident(c.Name)
		for _, p := range c.Properties {
			switch p {
			case "read":
				c.perms = append(c.perms, "pr")
			case "write":
				c.perms = append(c.perms, "pw")
			case "cnotify":
				c.perms = append(c.perms, "ev")
			default:
				// uncnotify (notification while not connected) has no HAP permission string; the
				// property only speaks of read / write / notify
				r.Distinct("metadata_property_without_permission", p)
			}
		}
		c.perms = permSet(c.perms)
		if len(c.Constraints) > 0 {
			var cons map[string]interface{}
			if err := json.Unmarshal(c.Constraints, &cons); err == nil {
				for k, v := range cons {
					f, isNum := v.(float64)
					switch k {
					case "MinimumValue", "MaximumValue", "StepValue":
						if !isNum {
							r.Inconclusive(fmt.Sprintf("metadata: %s of %q is not a number", k, c.Name))
							continue
						}
						fv := f
						switch k {
						case "MinimumValue":
							c.min = &fv
						case "MaximumValue":
							c.max = &fv
						case "StepValue":
							c.step = &fv
						}
					case "ValidValues", "ValidBits", "MaximumLength":
						// not part of the property
					default:
						// e.g. the misspelt key "stepValue" of Filter Life Level: not a key of the
						// metadata format, so it declares nothing (weaker reading, see Assume below)
						r.Distinct("metadata_unrecognised_constraint_key", c.Name+"/"+k)
					}
				}
			}
		}
	}
	for _, s := range m.Services {
		s.typ = minify(s.UUID)
		s.ident = ident(s.Name)
		s.optional = map[string]bool{}
		for _, u := range s.RequiredCharacteristics {
			s.required = append(s.required, minify(u))
		}
		for _, u := range s.OptionalCharacteristics {
			s.optional[minify(u)] = true
		}
	}
	return &m
}

var funcNewRe = regexp.MustCompile(`(?m)^func (New[A-Za-z0-9_]*)\(`)

// countSourceCtors counts `func New*(` lines in the non-test files of a package directory: a second,
// text-level count that the AST-based generator must agree with.
func countSourceCtors(dir string) (int, error) {
	ents, err := os.ReadDir(dir)
	if err != nil {
		return 0, err
	}
	n := 0
	for _, e := range ents {
		if e.IsDir() || !strings.HasSuffix(e.Name(), ".go") || strings.HasSuffix(e.Name(), "_test.go") {
			continue
		}
		b, err := os.ReadFile(filepath.Join(dir, e.Name()))
		if err != nil {
			return 0, err
		}
		n += len(funcNewRe.FindAllIndex(b, -1))
	}
	return n, nil
}

func prefixCount(list []string, prefix string) int {
	n := 0
	for _, s := range list {
		if strings.HasPrefix(s, prefix) {
			n++
		}
	}
	return n
}

type charObs struct {
	ctor catalog.CharCtor
	ch   *characteristic.Characteristic
}

type svcObs struct {
	ctor catalog.SvcCtor
	s    *service.Service
}

func charWitness(c catalog.CharCtor, ch *characteristic.Characteristic) map[string]interface{} {
	w := map[string]interface{}{"constructor": "characteristic." + c.Name, "file": c.File, "chain": c.Chain}
	if c.HasTypeConst {
		w["declared_type_const"] = c.TypeConst
	}
	if ch != nil {
		w["object"] = map[string]interface{}{"Type": ch.Type, "Format": ch.Format, "Perms": ch.Perms, "Unit": ch.Unit,
			"MinValue": show(ch.MinValue), "MaxValue": show(ch.MaxValue), "StepValue": show(ch.StepValue), "Value": show(ch.Value)}
	}
	return w
}

func svcTypes(s *service.Service) []string {
	var t []string
	for _, c := range s.Characteristics {
		if c == nil {
			t = append(t, "<nil>")
		} else {
			t = append(t, c.Type)
		}
	}
	return t
}

func main() {
	r := vf.Start("C15", "exploration")
	r.SetExhaustive(true)
	r.SetRule("a case = one exported New* constructor of characteristic / service / accessory called under recover (arguments synthesised by the " +
		"generator), or one entry of gen/metadata.json compared field by field with every object carrying its type id; non-trivial = every distinct " +
		"constructor that returned an object and every distinct metadata entry that found at least one object")
	r.Assume("gen/metadata.json is the authority for type id, format, read/write/cnotify, unit, MinimumValue, MaximumValue and StepValue; " +
		"constraint keys are case-sensitive as in the metadata format (the key \"stepValue\" of Filter Life Level declares nothing); " +
		"\"uncnotify\" has no HAP permission string and is not demanded")
	r.Assume("a short type id is the first UUID group without leading zeros when the UUID ends in " + appleSuffix)

	repo := os.Getenv("VERIF_REPO")
	if repo == "" {
		repo = "/repo"
	}
	r.Extra("repo", repo)
	r.Extra("catalog_source", catalog.Source)

	r.Guard("c15", func() { run(r, repo) })
	r.Finish()
}

func run(r *vf.Run, repo string) {
	// ---- harness sanity: the generated catalog belongs to the tree under test and is complete
	if catalog.Source == "" {
		r.Inconclusive("harness/catalog/zz_generated.go is missing (run through ./check, which generates it)")
		return
	}
	if filepath.Clean(catalog.Source) != filepath.Clean(repo) {
		r.Inconclusive(fmt.Sprintf("catalog was generated from %s but VERIF_REPO is %s", catalog.Source, repo))
		return
	}
	for _, u := range catalog.Uncovered {
		r.Inconclusive("constructor not covered by the catalog: " + u)
	}
	for _, p := range []struct {
		dir string
		n   int
	}{{"characteristic", len(catalog.Chars)}, {"service", len(catalog.Services)}, {"accessory", len(catalog.Accessories)}} {
		src, err := countSourceCtors(filepath.Join(repo, p.dir))
		if err != nil {
			r.Inconclusive("cannot count constructors in " + p.dir + ": " + err.Error())
			continue
		}
		got := p.n + prefixCount(catalog.Generic, p.dir+".") + prefixCount(catalog.Uncovered, p.dir+".")
		r.Count("source_func_New_"+p.dir, src)
		if got != src {
			r.Inconclusive(fmt.Sprintf("catalog lists %d constructors of %s but the source text has %d `func New*(` declarations", got, p.dir, src))
		}
		r.Floor("catalog entries of "+p.dir, p.n, 1)
	}
	r.Count("generic_helpers_not_in_catalog", len(catalog.Generic))
	r.Extra("generic_helpers", catalog.Generic)

	meta := loadMetadata(r, repo)
	if meta == nil {
		return
	}
	r.Count("metadata_characteristics", len(meta.Characteristics))
	r.Count("metadata_services", len(meta.Services))
	r.Floor("metadata characteristics", len(meta.Characteristics), 1)
	r.Floor("metadata services", len(meta.Services), 1)
	metaCharByType := map[string]*metaChar{}
	for _, c := range meta.Characteristics {
		if o := metaCharByType[c.typ]; o != nil {
			r.Inconclusive(fmt.Sprintf("metadata defines type %s twice (%q, %q)", c.typ, o.Name, c.Name))
		}
		metaCharByType[c.typ] = c
	}
	metaSvcByType := map[string]*metaSvc{}
	accessoryInfoType := ""
	for _, s := range meta.Services {
		if o := metaSvcByType[s.typ]; o != nil {
			r.Inconclusive(fmt.Sprintf("metadata defines service type %s twice (%q, %q)", s.typ, o.Name, s.Name))
		}
		metaSvcByType[s.typ] = s
		if s.Name == "Accessory Information" {
			accessoryInfoType = s.typ
		}
	}
	if accessoryInfoType == "" {
		r.Inconclusive("metadata has no service named \"Accessory Information\"")
		accessoryInfoType = "3E"
	}

	// ---- characteristics
	var chars []charObs
	called := 0
	for _, c := range catalog.Chars {
		r.Eval()
		called++
		ch, nilAt, panicText := catalog.ProbeChar(c)
		full := "characteristic." + c.Name
		switch {
		case panicText != "":
			r.Violation("ctor:"+full+":panic", full+"() panics: "+firstLine(panicText),
				map[string]interface{}{"constructor": full, "file": c.File, "panic": panicText, "site": vf.PanicSite(panicText, "brutella/hc")})
			continue
		case ch == nil && nilAt == c.Name+"()":
			r.Violation("ctor:"+full+":nil-object", full+"() returns nil", charWitness(c, nil))
			continue
		case ch == nil:
			r.Violation("ctor:"+full+":nil-base", full+"() returns an object whose embedded "+nilAt+" is nil", charWitness(c, nil))
			continue
		}
		nilFieldCheck(r, full, func() interface{} { return c.Raw() })
		r.Count("characteristic_constructors_returning_an_object", 1)
		r.Nontrivial("char/" + c.Name)
		chars = append(chars, charObs{c, ch})
		checkCharUsable(r, c, ch)
	}
	r.Count("characteristic_constructors_called", called)
	r.Floor("characteristic constructors called", called, len(catalog.Chars))

	byType := map[string][]charObs{}
	for _, o := range chars {
		byType[o.ch.Type] = append(byType[o.ch.Type], o)
	}
	matchedChars, comparedObjs, outside := 0, 0, 0
	for i, mc := range meta.Characteristics {
		r.Eval()
		objs := byType[mc.typ]
		if len(objs) == 0 {
			r.Violation("meta:char:"+mc.ident+":no-constructor",
				fmt.Sprintf("no characteristic constructor yields type %s of metadata entry %q", mc.typ, mc.Name),
				map[string]interface{}{"metadata": mc.Name, "uuid": mc.UUID, "expected_type": mc.typ})
			continue
		}
		matchedChars++
		r.Nontrivial("meta-char/" + mc.typ)
		for _, o := range objs {
			comparedObjs++
			compareChar(r, mc, o)
		}
		if i == 0 || i == 7 || i == 40 || i == 99 {
			o := objs[0]
			r.Sample(map[string]interface{}{"metadata": map[string]interface{}{"name": mc.Name, "uuid": mc.UUID, "type": mc.typ, "format": mc.Format,
				"perms": mc.perms, "unit": mc.Unit, "min": showP(mc.min), "max": showP(mc.max), "step": showP(mc.step)},
				"object": charWitness(o.ctor, o.ch)["object"], "constructor": o.ctor.Name})
		}
	}
	for _, o := range chars {
		if metaCharByType[o.ch.Type] == nil {
			outside++
			r.Distinct("characteristic_constructor_outside_metadata", o.ctor.Name)
		}
	}
	r.Count("metadata_characteristics_with_constructor", matchedChars)
	r.Count("characteristic_objects_compared_with_metadata", comparedObjs)
	r.Count("characteristic_constructors_outside_metadata", outside)

	// ---- services
	var svcs []svcObs
	called = 0
	for _, c := range catalog.Services {
		r.Eval()
		called++
		s, nilAt, panicText := catalog.ProbeService(c)
		full := "service." + c.Name
		switch {
		case panicText != "":
			r.Violation("ctor:"+full+":panic", full+"() panics: "+firstLine(panicText),
				map[string]interface{}{"constructor": full, "file": c.File, "chain": c.Chain, "panic": panicText, "site": vf.PanicSite(panicText, "brutella/hc")})
			continue
		case s == nil && nilAt == c.Name+"()":
			r.Violation("ctor:"+full+":nil-object", full+"() returns nil", map[string]interface{}{"constructor": full, "file": c.File})
			continue
		case s == nil:
			r.Violation("ctor:"+full+":nil-base", full+"() returns an object whose embedded "+nilAt+" is nil",
				map[string]interface{}{"constructor": full, "file": c.File, "chain": c.Chain, "nil_at": nilAt})
			continue
		}
		nilFieldCheck(r, full, func() interface{} { return c.Raw() })
		r.Count("service_constructors_returning_an_object", 1)
		r.Nontrivial("svc/" + c.Name)
		svcs = append(svcs, svcObs{c, s})
		checkService(r, "service:"+c.Name, full, s, map[string]interface{}{"constructor": full, "file": c.File})
		if s.Type == "" {
			r.Violation("service:"+c.Name+":type-empty", full+"() has an empty type identifier", map[string]interface{}{"constructor": full, "file": c.File})
		}
		if c.HasTypeConst && s.Type != c.TypeConst {
			r.Violation("service:"+c.Name+":type-mismatch",
				fmt.Sprintf("%s().Type is %q but const Type%s is declared %q", full, s.Type, strings.TrimPrefix(c.Name, "New"), c.TypeConst),
				map[string]interface{}{"constructor": full, "file": c.File, "object_type": s.Type, "declared": c.TypeConst})
		}
		if c.HasTypeConst {
			r.Count("service_type_constants_compared", 1)
		}
	}
	r.Count("service_constructors_called", called)
	r.Floor("service constructors called", called, len(catalog.Services))

	svcByType := map[string][]svcObs{}
	for _, o := range svcs {
		svcByType[o.s.Type] = append(svcByType[o.s.Type], o)
	}
	matchedSvcs, comparedSvcs := 0, 0
	for i, ms := range meta.Services {
		r.Eval()
		objs := svcByType[ms.typ]
		if len(objs) == 0 {
			r.Violation("meta:service:"+ms.ident+":no-constructor",
				fmt.Sprintf("no service constructor yields type %s of metadata entry %q", ms.typ, ms.Name),
				map[string]interface{}{"metadata": ms.Name, "uuid": ms.UUID, "expected_type": ms.typ})
			continue
		}
		matchedSvcs++
		r.Nontrivial("meta-svc/" + ms.typ)
		for _, o := range objs {
			comparedSvcs++
			present := svcTypes(o.s)
			w := map[string]interface{}{"metadata": ms.Name, "constructor": "service." + o.ctor.Name, "file": o.ctor.File,
				"required": ms.required, "present": present}
			for _, req := range ms.required {
				if !has(present, req) {
					r.Violation("meta:service:"+ms.ident+":missing-required:"+req,
						fmt.Sprintf("service.%s() (type %s, %q) lacks required characteristic %s (%s)", o.ctor.Name, ms.typ, ms.Name, req, charName(metaCharByType, req)), w)
				}
			}
			for _, p := range present {
				if p != "<nil>" && !has(ms.required, p) && !ms.optional[p] {
					r.Violation("meta:service:"+ms.ident+":not-required-or-optional:"+p,
						fmt.Sprintf("service.%s() (type %s, %q) holds characteristic %s which the metadata lists neither as required nor optional", o.ctor.Name, ms.typ, ms.Name, p), w)
				}
			}
			r.Distinct("required_characteristics_per_service", fmt.Sprint(len(ms.required)))
		}
		if i == 0 || i == 20 {
			r.Sample(map[string]interface{}{"metadata_service": ms.Name, "type": ms.typ, "required": ms.required,
				"constructor": objs[0].ctor.Name, "present": svcTypes(objs[0].s)})
		}
	}
	outside = 0
	for _, o := range svcs {
		if metaSvcByType[o.s.Type] == nil {
			outside++
			r.Distinct("service_constructor_outside_metadata", o.ctor.Name)
		}
	}
	r.Count("metadata_services_with_constructor", matchedSvcs)
	r.Count("service_objects_compared_with_metadata", comparedSvcs)
	r.Count("service_constructors_outside_metadata", outside)

	// ---- accessories
	called = 0
	for _, c := range catalog.Accessories {
		r.Eval()
		called++
		full := "accessory." + c.Name
		a, nilAt, panicText := catalog.ProbeAccessory(c, catalog.DefaultInfo())
		w := map[string]interface{}{"constructor": full, "file": c.File, "arguments": c.Args}
		switch {
		case panicText != "":
			w["panic"], w["site"] = panicText, vf.PanicSite(panicText, "brutella/hc")
			r.Violation("ctor:"+full+":panic", full+"("+c.Args+") panics: "+firstLine(panicText), w)
			continue
		case a == nil && nilAt == c.Name+"()":
			r.Violation("ctor:"+full+":nil-object", full+"("+c.Args+") returns nil", w)
			continue
		case a == nil:
			r.Violation("ctor:"+full+":nil-base", full+"("+c.Args+") returns an object whose embedded "+nilAt+" is nil", w)
			continue
		}
		nilFieldCheck(r, full, func() interface{} { return c.Raw(catalog.DefaultInfo()) })
		r.Count("accessory_constructors_returning_an_object", 1)
		r.Nontrivial("acc/" + c.Name)
		var types []string
		for _, s := range a.Services {
			if s == nil {
				types = append(types, "<nil>")
			} else {
				types = append(types, s.Type)
			}
		}
		w["service_types"] = types
		if len(a.Services) == 0 {
			r.Violation("accessory:"+c.Name+":no-service", full+" returns an accessory without services", w)
			continue
		}
		if types[0] != accessoryInfoType {
			r.Violation("accessory:"+c.Name+":info-service-not-first",
				fmt.Sprintf("%s: first service has type %s, expected Accessory Information (%s)", full, types[0], accessoryInfoType), w)
		}
		for i, s := range a.Services {
			if s == nil {
				r.Violation("accessory:"+c.Name+":nil-service", fmt.Sprintf("%s: service #%d is nil", full, i), w)
				continue
			}
			checkService(r, "accessory:"+c.Name+":service:"+s.Type, full+" service "+s.Type, s, w)
		}
		r.Distinct("accessory_service_count", fmt.Sprint(len(a.Services)))
		if c.Name == "NewThermostat" || c.Name == "NewSwitch" {
			r.Sample(map[string]interface{}{"accessory": full, "arguments": c.Args, "service_types": types})
		}
	}
	r.Count("accessory_constructors_called", called)
	r.Floor("accessory constructors called", called, len(catalog.Accessories))
}

func charName(m map[string]*metaChar, typ string) string {
	if c := m[typ]; c != nil {
		return c.Name
	}
	return "not in metadata"
}

func firstLine(s string) string {
	if i := strings.IndexByte(s, '\n'); i >= 0 {
		return s[:i]
	}
	return s
}

// checkCharUsable is what every characteristic constructor owes, whether or not the metadata knows it.
func checkCharUsable(r *vf.Run, c catalog.CharCtor, ch *characteristic.Characteristic) {
	full := "characteristic." + c.Name
	sig := "char:" + c.Name
	w := charWitness(c, ch)
	r.Distinct("format", ch.Format)
	r.Distinct("permission_set", strings.Join(permSet(ch.Perms), ","))
	r.Distinct("unit", ch.Unit)
	if c.HasTypeConst {
		r.Count("characteristic_type_constants_compared", 1)
		if ch.Type != c.TypeConst {
			r.Violation(sig+":type-mismatch",
				fmt.Sprintf("%s().Type is %q but const Type%s is declared %q", full, ch.Type, strings.TrimPrefix(c.Name, "New"), c.TypeConst), w)
		}
	}
	if ch.Type == "" {
		r.Violation(sig+":type-empty", full+"() has an empty type identifier", w)
	}
	goType, known := goTypeOfFormat[ch.Format]
	if !known {
		r.Violation(sig+":format-invalid", fmt.Sprintf("%s() has format %q, which is not a HAP format", full, ch.Format), w)
	}
	if len(ch.Perms) == 0 {
		r.Violation(sig+":perms-empty", full+"() has no permissions", w)
	}
	if !has(ch.Perms, "pr") {
		r.Count("characteristics_not_readable", 1)
		return
	}
	r.Count("readable_defaults_checked", 1)
	if ch.Value == nil {
		r.Violation(sig+":default-nil-but-readable",
			fmt.Sprintf("%s() is readable (perms %v) but has no default value; its typed GetValue panics and the attribute database has no \"value\"", full, ch.Perms), w)
		return
	}
	if known {
		if got := fmt.Sprintf("%T", ch.Value); got != goType {
			r.Violation(sig+":default-type", fmt.Sprintf("%s() has format %s but its default value is %s, expected Go type %s", full, ch.Format, show(ch.Value), goType), w)
			return
		}
	}
	if v, ok := num(ch.Value); ok {
		if mn, ok := num(ch.MinValue); ok && v < mn {
			r.Violation(sig+":default-out-of-bounds", fmt.Sprintf("%s() default %v is below its minimum %v", full, ch.Value, ch.MinValue), w)
		}
		if mx, ok := num(ch.MaxValue); ok && v > mx {
			r.Violation(sig+":default-out-of-bounds", fmt.Sprintf("%s() default %v is above its maximum %v", full, ch.Value, ch.MaxValue), w)
		}
		if math.IsNaN(v) || math.IsInf(v, 0) {
			r.Violation(sig+":default-out-of-bounds", fmt.Sprintf("%s() default is %v", full, ch.Value), w)
		}
	}
}

// compareChar demands exactly the metadata entry's fields of an object carrying its type id.
func compareChar(r *vf.Run, mc *metaChar, o charObs) {
	ch := o.ch
	full := "characteristic." + o.ctor.Name
	w := charWitness(o.ctor, ch)
	w["metadata"] = map[string]interface{}{"name": mc.Name, "uuid": mc.UUID, "type": mc.typ, "format": mc.Format, "properties": mc.Properties,
		"expected_perms": mc.perms, "unit": mc.Unit, "min": showP(mc.min), "max": showP(mc.max), "step": showP(mc.step)}
	sig := "meta:char:" + mc.ident
	if ch.Format != mc.Format {
		r.Violation(sig+":format", fmt.Sprintf("%s(): format %q, metadata %q has %q", full, ch.Format, mc.Name, mc.Format), w)
	}
	if got := permSet(ch.Perms); strings.Join(got, ",") != strings.Join(mc.perms, ",") {
		r.Violation(sig+":perms", fmt.Sprintf("%s(): permissions %v, metadata %q has %v -> %v", full, ch.Perms, mc.Name, mc.Properties, mc.perms), w)
	}
	if ch.Unit != mc.Unit {
		r.Violation(sig+":unit", fmt.Sprintf("%s(): unit %q, metadata %q has %q", full, ch.Unit, mc.Name, mc.Unit), w)
	}
	if !sameNumber(mc.min, ch.MinValue) {
		r.Violation(sig+":min", fmt.Sprintf("%s(): MinValue %s, metadata %q has MinimumValue %s", full, show(ch.MinValue), mc.Name, showP(mc.min)), w)
	}
	if !sameNumber(mc.max, ch.MaxValue) {
		r.Violation(sig+":max", fmt.Sprintf("%s(): MaxValue %s, metadata %q has MaximumValue %s", full, show(ch.MaxValue), mc.Name, showP(mc.max)), w)
	}
	if !sameNumber(mc.step, ch.StepValue) {
		r.Violation(sig+":step", fmt.Sprintf("%s(): StepValue %s, metadata %q has StepValue %s", full, show(ch.StepValue), mc.Name, showP(mc.step)), w)
	}
	// "when readable" by the metadata: the default must exist, have the format's type, lie in the
	// metadata's bounds.  (Readable by its own permissions is checked in checkCharUsable; this covers
	// an object whose permissions lost "pr" and whose bounds differ from the entry's.)
	if has(mc.perms, "pr") && ch.Value != nil {
		if want, ok := goTypeOfFormat[mc.Format]; ok && fmt.Sprintf("%T", ch.Value) == want {
			if v, ok := num(ch.Value); ok && ((mc.min != nil && v < *mc.min) || (mc.max != nil && v > *mc.max)) {
				r.Violation(sig+":default-outside-metadata-bounds",
					fmt.Sprintf("%s(): default %v outside metadata bounds [%s, %s]", full, ch.Value, showP(mc.min), showP(mc.max)), w)
			}
		}
	}
}

// checkService: no nil characteristic and no characteristic type twice.
func checkService(r *vf.Run, sigPrefix, what string, s *service.Service, base map[string]interface{}) {
	w := map[string]interface{}{}
	for k, v := range base {
		w[k] = v
	}
	w["service_type"] = s.Type
	w["characteristic_types"] = svcTypes(s)
	seen := map[string]int{}
	for i, c := range s.Characteristics {
		if c == nil {
			r.Violation(sigPrefix+":nil-characteristic", fmt.Sprintf("%s: characteristic #%d is nil", what, i), w)
			continue
		}
		seen[c.Type]++
		if seen[c.Type] == 2 {
			r.Violation(sigPrefix+":duplicate-type:"+c.Type, fmt.Sprintf("%s holds two characteristics of type %s", what, c.Type), w)
		}
	}
	r.Distinct("characteristics_per_service", fmt.Sprint(len(s.Characteristics)))
}

// nilFieldCheck: a usable object has no nil exported object field (a field such as Camera.StreamManagement2 that a
// user dereferences). The concrete object is walked with reflection.
func nilFieldCheck(r *vf.Run, full string, mk func() interface{}) {
	var obj interface{}
	if panicked, _ := vf.Recover(func() { obj = mk() }); panicked || obj == nil {
		return // reported by the caller already
	}
	r.Count("objects_walked_for_nil_fields", 1)
	for _, path := range catalog.NilFields(obj) {
		r.Violation("ctor:"+full+":nil-field:"+strings.TrimPrefix(path, "."), full+"() returns an object whose exported field "+strings.TrimPrefix(path, ".")+" is nil",
			map[string]interface{}{"constructor": full, "nil_field": path})
	}
}

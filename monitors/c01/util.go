package main

import (
	"github.com/brutella/hc"
	"golang.org/x/crypto/curve25519"
)

func x25519(priv, pub []byte) ([]byte, error) { return curve25519.X25519(priv, pub) }

func hcConfig(dir string) hc.Config { return hc.Config{StoragePath: dir, Pin: "00102003"} }

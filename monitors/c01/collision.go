package main

import (
	"fmt"
	"math/rand"
	"net"
	"strings"
	"syscall"
	"time"

	"verif/refctl"
)

// hc keys its sessions by the peer's address (ip:port).  Two connections from the same source ip:port to two
// local addresses of the accessory (it listens on all of them) therefore share one session entry, and closing
// one deletes the entry of the other.  An unverified peer can produce that state (SO_REUSEPORT); every protected
// request on the surviving connection must still be refused, and a legitimate controller that shares the key must
// not lend its verification to the other connection.

func dialFrom(local, remote string) (*refctl.Conn, error) {
	la, err := net.ResolveTCPAddr("tcp", local)
	if err != nil {
		return nil, err
	}
	d := net.Dialer{LocalAddr: la, Timeout: 5 * time.Second, Control: func(network, address string, c syscall.RawConn) error {
		var serr error
		c.Control(func(fd uintptr) {
			serr = syscall.SetsockoptInt(int(fd), syscall.SOL_SOCKET, syscall.SO_REUSEADDR, 1)
			if serr == nil {
				serr = syscall.SetsockoptInt(int(fd), syscall.SOL_SOCKET, 0xf /* SO_REUSEPORT */, 1)
			}
		})
		return serr
	}}
	c, err := d.Dial("tcp", remote)
	if err != nil {
		return nil, err
	}
	rc := refctl.NewConn(c)
	rc.Timeout = 3 * time.Second
	return rc, nil
}

// collisions runs the shared-session-key scenarios once per protected operation.
func collisions(w *world, rnd *rand.Rand) {
	port := w.a.Port
	for i, op := range protectedOps {
		// scenario 1: two unverified connections share the key, the first one closes
		local := fmt.Sprintf("127.0.0.1:%d", 20000+rnd.Intn(20000))
		c1, err := dialFrom(local, "127.0.0.1:"+port)
		if err != nil {
			run.Count("collision_scenarios_skipped", 1)
			continue
		}
		c2, err := dialFrom(local, "127.0.0.2:"+port)
		if err != nil {
			c1.Close()
			run.Count("collision_scenarios_skipped", 1)
			continue
		}
		// make sure both are accepted (one round trip each)
		c1.Do("POST", "/pair-verify", refctl.ContentTLV8, []byte{0x06, 0x01, 0x09})
		c2.Do("POST", "/pair-verify", refctl.ContentTLV8, []byte{0x06, 0x01, 0x09})
		c1.CloseGraceful()
		// wait until the accessory noticed the close: bounded progress on other connections
		for k := 0; k < 10; k++ {
			w.a.Probe()
		}
		at := &attacker{c: c2, me: refctl.NewIdentity(fmt.Sprintf("collider-%d", i), rnd)}
		method, target, ctype, body, _ := w.request(op, rnd, at)
		before := w.state()
		m, err := c2.Do(method, target, ctype, body)
		collisionCheck(w, "survivor-of-shared-session-key", op, before, m, err)
		c2.Close()
		run.Count("collision_scenarios", 1)

		// scenario 2: the attacker's connection shares the key with the legitimate controller's verified one
		local = fmt.Sprintf("127.0.0.1:%d", 20000+rnd.Intn(20000))
		ca, err := dialFrom(local, "127.0.0.2:"+port)
		if err != nil {
			continue
		}
		ca.Do("POST", "/pair-verify", refctl.ContentTLV8, []byte{0x06, 0x01, 0x09})
		cl, err := dialFrom(local, "127.0.0.1:"+port)
		if err != nil {
			ca.Close()
			continue
		}
		cl.Timeout = 5 * time.Second
		if _, err := cl.PairVerify(w.L, w.accLTPK, w.accID, nil); err == nil {
			at := &attacker{c: ca, me: refctl.NewIdentity(fmt.Sprintf("collider2-%d", i), rnd)}
			method, target, ctype, body, _ := w.request(op, rnd, at)
			before := w.state()
			m, err := ca.Do(method, target, ctype, body)
			collisionCheck(w, "shares-key-with-verified-controller", op, before, m, err)
			run.Count("collision_scenarios", 1)
		}
		ca.Close()
		cl.Close()
	}
}

func collisionCheck(w *world, scenario, op string, before state, m *refctl.Message, err error) {
	run.Count("attacker_requests", 1)
	run.Distinct("(operation,mode)", op+"/plaintext:"+scenario)
	wit := map[string]interface{}{"scenario": scenario, "op": op}
	if m != nil {
		wit["status"] = m.Status
		wit["body"] = trim(string(m.Body), 120)
		for _, cn := range w.canaries {
			if strings.Contains(string(m.Body), cn) {
				run.Violation("disclosure:"+op+":"+scenario+":canary", "the answer on a connection that is not pair-verified contains a planted value ("+scenario+")", wit)
				return
			}
		}
		if strings.Contains(string(m.Body), `"iid"`) {
			run.Violation("disclosure:"+op+":"+scenario+":attribute-database", "the answer on a connection that is not pair-verified contains attribute database content ("+scenario+")", wit)
			return
		}
		if m.Status >= 200 && m.Status <= 299 {
			run.Violation("served:"+op+":"+scenario, fmt.Sprintf("%s on a connection that is not pair-verified was answered with status %d (%s)", op, m.Status, scenario), wit)
			return
		}
	} else if err != nil {
		wit["result"] = err.Error()
	}
	if d := diffState(before, w.state()); len(d) > 0 {
		run.Violation("changed:"+op+":"+scenario+":"+strings.Join(classOnly(d), "+"), fmt.Sprintf("%s on a connection that is not pair-verified changed: %v (%s)", op, d, scenario), wit)
		return
	}
	run.Count("protected_requests_refused", 1)
}

package main

import (
	"fmt"
	"math/rand"
	"strings"
	"sync"
	"sync/atomic"
	"time"

	"github.com/brutella/hc/verifhook"

	"verif/refctl"
	"verif/vf"
)

// Removed controllers: "a controller key stored on the accessory" stops being one the moment an administrator's remove
// request has been answered.  A controller R is added by the legitimate controller, verifies in a loop on new
// connections, and is removed while it does so (the storage hook points delay R's lookups, so that a lookup and the
// removal overlap).  Every pair-verify that R STARTS after the removal was answered must be refused, and nothing
// protected may be served to it; what R had verified before is not judged here.

var removedDelayOn int32
var removedDelaySeq uint64

func removedHook(point string) {
	if atomic.LoadInt32(&removedDelayOn) == 0 || !strings.HasPrefix(point, "storage.") {
		return
	}
	x := atomic.AddUint64(&removedDelaySeq, 0x9E3779B97F4A7C15)
	x ^= x >> 29
	x *= 0xBF58476D1CE4E5B9
	x ^= x >> 32
	switch x % 3 {
	case 0:
		time.Sleep(time.Duration(200+x%4000) * time.Microsecond)
	case 1:
		time.Sleep(time.Duration(20+x%200) * time.Microsecond)
	}
}

func removedControllers(r *vf.Run, w *world) {
	rounds := r.Pick(12, 120)
	verifhook.Install(removedHook)
	defer verifhook.Install(func(string) {})
	atomic.StoreInt32(&removedDelayOn, 1)
	defer atomic.StoreInt32(&removedDelayOn, 0)
	sem := make(chan struct{}, 4)
	var wg sync.WaitGroup
	for i := 0; i < rounds; i++ {
		wg.Add(1)
		sem <- struct{}{}
		go func(i int) {
			defer wg.Done()
			defer func() { <-sem }()
			r.Guard(fmt.Sprintf("removed controller round %d", i), func() { removedRound(r, w, i) })
		}(i)
	}
	wg.Wait()
	r.Floor("removed_controller_rounds", int(r.Counter("removed_controller_rounds")), rounds*8/10)
	r.Floor("removed_controller_verifies_refused_after_removal", int(r.Counter("removed_controller_verifies_refused_after_removal")), rounds*3)
	r.Floor("removed_controller_verifies_accepted_before_removal", int(r.Counter("removed_controller_verifies_accepted_before_removal")), rounds/2)
}

func removedRound(r *vf.Run, w *world, i int) {
	rnd := rand.New(rand.NewSource(r.Seed*7001 + int64(i)))
	R := refctl.NewIdentity(fmt.Sprintf("former-controller-%d", i), rnd)
	lc, err := w.legit()
	if err != nil {
		r.Inconclusive("removed controllers: the legitimate controller cannot verify: " + err.Error())
		return
	}
	defer lc.Close()
	lc.Timeout = 30 * time.Second
	if m, t, err := lc.PostTLV("/pairings", refctl.PairingsAdd(R.ID, R.LTPK, false)); err != nil || m.Status != 200 || hasErr(t) {
		r.Inconclusive(fmt.Sprintf("removed controllers: adding the pairing failed: %v", err))
		return
	}
	var removed int32 // set after the remove request was answered with success
	var wg sync.WaitGroup
	var before, after, acceptedAfter int64
	var firstBad string
	var mu sync.Mutex
	verifyOnce := func() {
		startedAfter := atomic.LoadInt32(&removed) == 1
		c, err := refctl.Dial(w.a.Addr)
		if err != nil {
			return
		}
		defer c.Close()
		c.Timeout = 20 * time.Second
		_, verr := c.PairVerify(R, w.accLTPK, w.accID, nil)
		switch {
		case verr == nil && startedAfter:
			atomic.AddInt64(&acceptedAfter, 1)
			served := ""
			if m, e := c.Do("GET", "/accessories", "", nil); e == nil && m.Status == 200 {
				served = "; GET /accessories on that connection was answered 200"
			}
			mu.Lock()
			if firstBad == "" {
				firstBad = "a pair-verify started after the removal had been answered was accepted" + served
			}
			mu.Unlock()
		case verr == nil:
			atomic.AddInt64(&before, 1)
		case startedAfter:
			atomic.AddInt64(&after, 1)
		}
	}
	// the first lookups of R overlap the removal
	for k := 0; k < 2; k++ {
		wg.Add(1)
		go func() {
			defer wg.Done()
			for atomic.LoadInt32(&removed) == 0 {
				verifyOnce()
			}
		}()
	}
	time.Sleep(time.Duration(rnd.Intn(3000)) * time.Microsecond)
	m, t, err := lc.PostTLV("/pairings", refctl.PairingsRemove(R.ID))
	if err != nil || m.Status != 200 || hasErr(t) {
		atomic.StoreInt32(&removed, 2)
		wg.Wait()
		r.Inconclusive(fmt.Sprintf("removed controllers: the remove request failed: %v", err))
		return
	}
	atomic.StoreInt32(&removed, 1)
	wg.Wait()
	for k := 0; k < 4; k++ {
		verifyOnce()
	}
	r.Eval()
	r.Count("removed_controller_rounds", 1)
	r.Count("removed_controller_verifies_accepted_before_removal", int(before))
	r.Count("removed_controller_verifies_refused_after_removal", int(after))
	if acceptedAfter > 0 {
		r.Violation("removed-controller:verified-after-removal", fmt.Sprintf("controller %q was removed through /pairings (answered with success); %d of its pair-verifies started afterwards were accepted: %s", R.ID, acceptedAfter, firstBad),
			map[string]interface{}{"round": i, "verifies_accepted_before_the_removal": before, "verifies_refused_after_the_removal": after})
	}
}

func hasErr(t *refctl.TLV) bool {
	if t == nil {
		return false
	}
	_, has := t.Get(refctl.TagError)
	return has
}

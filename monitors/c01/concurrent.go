package main

// Concurrent phase.  "…interleaved with a legitimate controller working on another connection" also means at the
// same instant: net/http serves every connection on its own goroutine, so the decision "is THIS connection
// verified" is taken concurrently for verified and unverified connections by the same handler values.  Several
// verified controllers and several unverified peers send protected requests to the same endpoints without
// pause; every answer to an unverified peer must be a refusal without any token of the attribute database, every
// answer to a verified controller must be served (a refusal there is the same mix-up seen from the other side:
// counted, reported as a violation only for the unverified direction the property states), and afterwards the
// pairing set and the values the attackers tried to write are unchanged.  The same workload runs once more in a
// child built with the race detector; reports whose access stacks pass through hc's HTTP handlers, session
// lookup or context are violations (a data race in the authorisation decision is the mechanism of such mix-ups).

import (
	"bytes"
	"encoding/json"
	"fmt"
	"math/rand"
	"os"
	"os/exec"
	"path/filepath"
	"strings"
	"sync"
	"sync/atomic"
	"time"

	"verif/harness/app"
	"verif/refctl"
	"verif/vf"
)

type concOut struct {
	AttackerRequests int64                    `json:"attacker_requests"`
	Refused          int64                    `json:"refused"`
	LegitRequests    int64                    `json:"legit_requests"`
	LegitServed      int64                    `json:"legit_served"`
	LegitRefused     int64                    `json:"legit_refused"`
	Abandoned        int64                    `json:"answers_abandoned_by_a_verified_controller"`
	Viols            []map[string]interface{} `json:"violations"`
	Incon            string                   `json:"inconclusive,omitempty"`
}

func concurrentPhase(w *world, seed int64, perAttacker int) (out concOut) {
	var mu sync.Mutex
	viol := func(sig, what string, wit map[string]interface{}) {
		mu.Lock()
		if len(out.Viols) < 20 {
			out.Viols = append(out.Viols, map[string]interface{}{"sig": sig, "what": what, "witness": wit})
		}
		mu.Unlock()
	}
	before := w.state()
	noteBefore := w.note.GetValue()
	var stop int32
	var wg, awg sync.WaitGroup
	// verified controllers
	for k := 0; k < 3; k++ {
		lc, err := w.legit()
		if err != nil {
			out.Incon = "concurrent phase: legitimate controller cannot verify: " + err.Error()
			atomic.StoreInt32(&stop, 1)
			break
		}
		lc.Timeout = 10 * time.Second
		wg.Add(1)
		go func(k int, lc *refctl.Conn) {
			defer wg.Done()
			defer lc.Close()
			targets := []string{"/accessories", fmt.Sprintf("/characteristics?id=%d.%d", w.sw.Accessory.ID, w.sw.Switch.On.ID)}
			for i := 0; atomic.LoadInt32(&stop) == 0; i++ {
				m, err := lc.Do("GET", targets[(i+k)%2], "", nil)
				if err != nil {
					return
				}
				atomic.AddInt64(&out.LegitRequests, 1)
				if m.Status == 200 {
					atomic.AddInt64(&out.LegitServed, 1)
				} else {
					atomic.AddInt64(&out.LegitRefused, 1)
				}
			}
		}(k, lc)
	}
	// an impatient verified controller: it asks for the attribute database and leaves before (or while) the answer is
	// written, again and again; what its aborted answers leave behind must not reach anybody else
	for k := 0; k < 3; k++ {
		wg.Add(1)
		go func(k int) {
			defer wg.Done()
			rnd := rand.New(rand.NewSource(seed*19 + int64(k)))
			for i := 0; atomic.LoadInt32(&stop) == 0; i++ {
				lc, err := w.legit()
				if err != nil {
					return
				}
				lc.Send(refctl.BuildRequest("GET", "/accessories", "", nil))
				if d := rnd.Intn(4); d > 0 {
					time.Sleep(time.Duration(rnd.Intn(300*d)) * time.Microsecond)
				}
				if i%4 == 3 {
					lc.CloseGraceful()
				} else {
					lc.Close()
				}
				atomic.AddInt64(&out.Abandoned, 1)
			}
		}(k)
	}
	// unverified peers
	ops := []string{"GET /accessories", "GET /characteristics", "PUT value", "POST /pairings add", "PUT ev", "POST /resource"}
	for k := 0; k < 4 && out.Incon == ""; k++ {
		awg.Add(1)
		go func(k int) {
			defer awg.Done()
			rnd := rand.New(rand.NewSource(seed*17 + int64(k)))
			at := &attacker{me: refctl.NewIdentity(fmt.Sprintf("conc-attacker-%d", k), rnd)}
			c, err := refctl.Dial(w.a.Addr)
			if err != nil {
				return
			}
			defer func() { c.Close() }()
			c.Timeout = 10 * time.Second
			for i := 0; i < perAttacker; i++ {
				op := ops[(i+k)%len(ops)]
				if i%3 == 0 {
					op = ops[k%2] // two of them hammer the very endpoints the controllers use
				}
				method, target, ctype, body, _ := w.request(op, rnd, at)
				m, err := c.Do(method, target, ctype, body)
				atomic.AddInt64(&out.AttackerRequests, 1)
				if err != nil {
					// a dropped connection is a refusal too; reconnect
					c.Close()
					if c, err = refctl.Dial(w.a.Addr); err != nil {
						return
					}
					c.Timeout = 10 * time.Second
					continue
				}
				if m.Status >= 200 && m.Status <= 299 {
					viol("concurrent:served:"+op, fmt.Sprintf("%s on a connection that is not pair-verified was answered with status %d while verified controllers used the same endpoints at the same time", op, m.Status),
						map[string]interface{}{"request": op, "status": m.Status, "body_head": trim(string(m.Body), 200), "attacker": k, "request_no": i})
					continue
				}
				if bytes.Contains(m.Body, []byte(`"iid"`)) || bytes.Contains(m.Body, []byte(`"perms"`)) {
					viol("concurrent:disclosed:"+op+":attribute-database", fmt.Sprintf("the refusal of %s contains attribute database content", op), map[string]interface{}{"request": op, "status": m.Status, "body_head": trim(string(m.Body), 300)})
				}
				for _, cn := range w.canaries {
					if bytes.Contains(m.Body, []byte(cn)) {
						viol("concurrent:disclosed:"+op, fmt.Sprintf("the refusal of %s contains a value of the attribute database", op), map[string]interface{}{"request": op, "status": m.Status})
					}
				}
				atomic.AddInt64(&out.Refused, 1)
			}
		}(k)
	}
	awg.Wait()
	atomic.StoreInt32(&stop, 1)
	wg.Wait()
	after := w.state()
	after.callbacks, before.callbacks = 0, 0 // (the controllers only read)
	if d := diffState(before, after); len(d) > 0 {
		viol("concurrent:changed:"+strings.Join(classOnly(d), "+"), fmt.Sprintf("requests of unverified peers changed state during the concurrent phase: %v", d), nil)
	}
	if w.note.GetValue() != noteBefore {
		viol("concurrent:changed:value", "a value written by an unverified peer was applied", nil)
	}
	return out
}

func mergeConcurrent(r *vf.Run, o concOut, build string) {
	if o.Incon != "" {
		r.Inconclusive(o.Incon)
		return
	}
	r.Evals(int(o.AttackerRequests))
	r.Count("concurrent_attacker_requests_"+build, int(o.AttackerRequests))
	r.Count("concurrent_attacker_requests_refused", int(o.Refused))
	r.Count("concurrent_legit_requests", int(o.LegitRequests))
	r.Count("concurrent_legit_requests_served", int(o.LegitServed))
	r.Count("concurrent_legit_requests_refused", int(o.LegitRefused))
	r.Count("concurrent_answers_abandoned_by_a_verified_controller", int(o.Abandoned))
	r.Nontrivial(fmt.Sprintf("concurrent/%s/%d/%d", build, o.AttackerRequests, o.LegitRequests))
	for _, v := range o.Viols {
		wit, _ := v["witness"].(map[string]interface{})
		r.Violation(fmt.Sprint(v["sig"]), fmt.Sprint(v["what"]), wit)
	}
}

// concChildMain: -conc-child <seed> <perAttacker> <outfile> <workdir>
func concChildMain() {
	var seed int64
	var per int
	fmt.Sscan(os.Args[2], &seed)
	fmt.Sscan(os.Args[3], &per)
	rnd := rand.New(rand.NewSource(seed))
	dir := app.ScratchDir(os.Args[5], "conc-race")
	defer os.RemoveAll(dir)
	var out concOut
	w, err := build(rnd, dir, refctl.NewIdentity("legit-controller", rnd))
	if err != nil {
		out.Incon = "race child: setup: " + err.Error()
	} else {
		out = concurrentPhase(w, seed, per)
		w.a.Stop()
	}
	b, _ := json.Marshal(out)
	os.WriteFile(os.Args[4], b, 0o644)
}

func concurrentRaceChild(r *vf.Run, per int) {
	bin := os.Getenv("VERIF_RACE_BIN")
	if bin == "" {
		r.Inconclusive("VERIF_RACE_BIN not set (race build missing)")
		return
	}
	dir := r.WorkDir()
	old, _ := filepath.Glob(filepath.Join(dir, "race.log.*"))
	for _, f := range old {
		os.Remove(f)
	}
	outf := filepath.Join(dir, "race-child.json")
	os.Remove(outf)
	cmd := exec.Command("timeout", "-s", "QUIT", "1800", bin, "-conc-child", fmt.Sprint(r.Seed), fmt.Sprint(per), outf, dir)
	cmd.Env = append(os.Environ(), "GORACE=halt_on_error=0 log_path="+filepath.Join(dir, "race.log"))
	lf, _ := os.Create(filepath.Join(dir, "race-child.out"))
	cmd.Stdout, cmd.Stderr = lf, lf
	err := cmd.Run()
	lf.Close()
	b, rerr := os.ReadFile(outf)
	var o concOut
	if rerr != nil || json.Unmarshal(b, &o) != nil {
		r.Inconclusive(fmt.Sprintf("race child produced no result (%v, %v); see %s", err, rerr, filepath.Join(dir, "race-child.out")))
		return
	}
	mergeConcurrent(r, o, "race")
	const mod = "github.com/brutella/hc/"
	other := map[string]int{}
	for _, rep := range vf.ParseRaceLogs(filepath.Join(dir, "race.log.*"), mod) {
		r.Count("race_reports_total", 1)
		anch := false
		for _, t := range rep.Tops { // the racing accesses themselves, not whatever was on the stack above them
			if strings.Contains(t, ".Authenticate") || strings.Contains(t, "hc/hap.(*context)") || strings.Contains(t, "hc/hap.(*session)") ||
				strings.Contains(t, "hc/hap/endpoint.") || strings.Contains(t, "hc/hap/pair.") {
				anch = true
			}
		}
		if anch {
			r.Violation("race:"+rep.Key(mod), "the race detector reports a data race in the code that decides whether a connection is verified / serves protected endpoints: "+rep.Key(mod),
				map[string]interface{}{"report": trim(rep.Block, 3000), "log": rep.File})
		} else {
			other[rep.Key(mod)]++
		}
	}
	if len(other) > 0 {
		r.Extra("other_races_observed", other)
	}
}

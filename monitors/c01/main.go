// C01 — protected endpoints serve only pair-verified connections.
//
// Full stack.  A legitimate controller L (paired, verified) works on its own connection while one or two
// attacker connections U — which hold neither the setup code nor a paired key — send generated histories:
// plaintext requests to every endpoint, partial / failed / forged pair-setup and pair-verify exchanges and
// ciphertext under keys the peer can derive itself.  After EVERY attacker request the monitor checks that the
// request was refused, disclosed nothing (canaries, attribute-database tokens) and changed nothing (values,
// callbacks, pairings); at the end of each history a local change of every subscribed-to characteristic is
// followed by a fence on every U: no EVENT bytes may have arrived.
package main

import (
	"bytes"
	"crypto/ed25519"
	"encoding/hex"
	"encoding/json"
	"fmt"
	"image"
	"math/rand"
	"net"
	"os"
	"path/filepath"
	"reflect"
	"strings"
	"sync"
	"time"

	"github.com/brutella/hc/accessory"
	"github.com/brutella/hc/characteristic"
	"github.com/brutella/hc/service"

	"verif/harness/app"
	"verif/refctl"
	"verif/vf"
)

var run *vf.Run

type world struct {
	a        *app.App
	dir      string
	L        *refctl.Identity
	accID    string
	accName  string // the advertised name of the bridge
	accLTPK  []byte
	canaries []string
	chars    []*characteristic.Characteristic // every characteristic of every accessory
	aids     map[*characteristic.Characteristic]uint64
	note     *characteristic.String // writable string with a canary
	sw       *accessory.Switch
	bulb     *accessory.ColoredLightbulb

	mu         sync.Mutex
	callbacks  []string // "remoteaddr aid.iid" for every conn-callback invocation
	snapshots  int      // camera snapshot requests
	identifies int
}

func canary(rnd *rand.Rand) string {
	const al = "ABCDEFGHJKLMNPQRSTUVWXYZ23456789"
	b := make([]byte, 20)
	for i := range b {
		b[i] = al[rnd.Intn(len(al))]
	}
	return "CANARY" + string(b)
}

func build(rnd *rand.Rand, dir string, L *refctl.Identity) (*world, error) {
	w := &world{dir: dir, L: L, aids: map[*characteristic.Characteristic]uint64{}}
	mk := func() string { c := canary(rnd); w.canaries = append(w.canaries, c); return c }
	bridge := accessory.NewBridge(accessory.Info{Name: "C01 Bridge", SerialNumber: mk(), Manufacturer: mk(), Model: mk(), FirmwareRevision: "1.0"})
	w.sw = accessory.NewSwitch(accessory.Info{Name: mk(), SerialNumber: mk()})
	w.bulb = accessory.NewColoredLightbulb(accessory.Info{Name: mk(), SerialNumber: mk()})
	w.note = characteristic.NewString("F0000001-0000-1000-8000-0026BB765291")
	w.note.Perms = characteristic.PermsAll()
	w.note.SetValue(mk())
	sv := service.New("F0000000-0000-1000-8000-0026BB765291")
	sv.AddCharacteristic(w.note.Characteristic)
	w.sw.AddService(sv)
	th := accessory.NewThermostat(accessory.Info{Name: mk()}, 21, 10, 30, 0.5)
	accs := []*accessory.Accessory{bridge.Accessory, w.sw.Accessory, w.bulb.Accessory, th.Accessory}
	app.StoreController(dir, L)
	a, err := app.StartWith(hcConfig(dir), func(t interface{}) {
		// make /resource exist
		f := reflect.ValueOf(t).Elem().FieldByName("CameraSnapshotReq")
		fn := func(width, height uint) (*image.Image, error) {
			w.mu.Lock()
			w.snapshots++
			w.mu.Unlock()
			var img image.Image = image.NewGray(image.Rect(0, 0, 4, 4))
			return &img, nil
		}
		f.Set(reflect.ValueOf(fn))
	}, accs[0], accs[1:]...)
	if err != nil {
		return nil, err
	}
	w.a = a
	for _, ac := range accs {
		ac := ac
		ac.OnIdentify(func() { w.mu.Lock(); w.identifies++; w.mu.Unlock() })
		for _, s := range ac.Services {
			for _, c := range s.Characteristics {
				c := c
				w.chars = append(w.chars, c)
				w.aids[c] = ac.ID
				c.OnValueUpdateFromConn(func(conn net.Conn, ch *characteristic.Characteristic, nv, ov interface{}) {
					w.mu.Lock()
					w.callbacks = append(w.callbacks, fmt.Sprintf("%s %d.%d", conn.RemoteAddr(), w.aids[ch], ch.ID))
					w.mu.Unlock()
				})
			}
		}
	}
	acc, ok := app.AccessoryEntity(dir)
	if !ok {
		return nil, fmt.Errorf("no accessory entity")
	}
	w.accID, w.accLTPK = acc.Name, acc.PublicKey
	w.accName = "C01 Bridge"
	return w, nil
}

// state is everything a refused request must not change.
type state struct {
	values    string
	callbacks int
	snapshots int
	db        map[string]string
}

func (w *world) state() state {
	var b strings.Builder
	for _, c := range w.chars {
		fmt.Fprintf(&b, "%d.%d=%#v;", w.aids[c], c.ID, c.Value)
	}
	w.mu.Lock()
	defer w.mu.Unlock()
	return state{values: b.String(), callbacks: len(w.callbacks), snapshots: w.snapshots, db: app.Snapshot(w.dir)}
}

func diffState(a, b state) []string {
	var out []string
	if a.values != b.values {
		out = append(out, "characteristic-value")
	}
	if a.callbacks != b.callbacks {
		out = append(out, "application-callback")
	}
	if a.snapshots != b.snapshots {
		out = append(out, "camera-snapshot")
	}
	if d := app.DiffSnapshots(a.db, b.db); len(d) > 0 {
		out = append(out, "stored-pairing"+fmt.Sprint(d))
	}
	return out
}

// ---------------------------------------------------------------- attacker

type attacker struct {
	c               *refctl.Conn
	keys            [][]byte // shared secrets the attacker derived itself on this connection
	curPriv, curPub [32]byte
	accPub          []byte
	encKey          [32]byte
	haveExchange    bool
	me              *refctl.Identity
	srpSalt, srpB   []byte
	srpK            []byte // session key of the attacker's own SRP run with a guessed password
	inSibling       bool   // the attacker's identity is stored by a sibling accessory (a storage folder next to this one)
}

type step struct {
	Op  string `json:"op"`
	Arg string `json:"arg,omitempty"`
}

var protectedOps = []string{"GET /accessories", "GET /characteristics", "PUT value", "PUT ev", "POST /pairings add", "POST /pairings remove", "POST /pairings add-accessory-name", "POST /resource",
	// the same endpoints through methods their handlers do not expect: the refusal must come before any dispatch
	"other-method POST /accessories", "other-method PUT /accessories", "other-method POST /characteristics", "other-method GET /pairings", "other-method PUT /pairings", "other-method GET /resource",
	// and through methods no HAP endpoint uses at all (each protected path with a body that would be honoured)
	"other-method DELETE /pairings", "other-method PATCH /pairings", "other-method OPTIONS /pairings", "other-method FOO /pairings", "other-method DELETE /pairings-remove", "other-method PATCH /pairings-remove",
	"other-method DELETE /characteristics", "other-method PATCH /characteristics", "other-method OPTIONS /accessories", "other-method PATCH /accessories", "other-method DELETE /resource", "other-method FOO /characteristics"}
var handshakeOps = []string{"setup M1", "setup M3 wrong-proof", "setup M3 A=0", "setup M5 zero-key", "verify M1", "verify M1 short-key", "verify M3 unknown-name", "verify M3 accessory-name",
	"verify M3 L-bad-signature", "verify M3 zero-key", "verify M3 short", "verify M3 name-is-a-path", "verify M3 unknown-name+small-order-signature", "identify", "L read", "L write", "L subscribe", "switch-connection", "encrypted GET /accessories", "encrypted PUT value", "encrypted-zero GET /accessories", "encrypted-zero PUT value",
	// complete, consistent SRP runs with passwords anybody can know (what the accessory advertises, the fixed SRP user, nothing),
	// and the key exchange sealed under the key of that run
	"setup M3 guess:accessory-id", "setup M3 guess:accessory-name", "setup M3 guess:empty", "setup M3 guess:srp-user", "setup M5 guess-key"}

func (w *world) request(op string, rnd *rand.Rand, at *attacker) (method, target, ctype string, body []byte, protected bool) {
	aid := w.sw.Accessory.ID
	onID := w.sw.Switch.On.ID
	switch op {
	case "GET /accessories":
		return "GET", "/accessories", "", nil, true
	case "GET /characteristics":
		ids := fmt.Sprintf("%d.%d,%d.%d", aid, onID, aid, w.note.ID)
		if rnd.Intn(3) == 0 {
			ids += ",99.99"
		}
		return "GET", "/characteristics?id=" + ids, "", nil, true
	case "PUT value":
		v := refctl.CharValue{AID: aid, IID: onID, Value: refctl.RawJSON(!w.sw.Switch.On.GetValue())}
		if rnd.Intn(2) == 0 {
			v = refctl.CharValue{AID: aid, IID: w.note.ID, Value: refctl.RawJSON("attacker-was-here")}
		}
		return "PUT", "/characteristics", refctl.ContentJSON, refctl.PutBody(v), true
	case "PUT ev":
		t := true
		return "PUT", "/characteristics", refctl.ContentJSON, refctl.PutBody(refctl.CharValue{AID: aid, IID: onID, Ev: &t}), true
	case "POST /pairings add":
		return "POST", "/pairings", refctl.ContentTLV8, refctl.PairingsAdd(at.me.ID, at.me.LTPK, true), true
	case "POST /pairings remove":
		return "POST", "/pairings", refctl.ContentTLV8, refctl.PairingsRemove(w.L.ID), true
	case "POST /pairings add-accessory-name":
		return "POST", "/pairings", refctl.ContentTLV8, refctl.PairingsAdd(w.accID, at.me.LTPK, true), true
	case "POST /resource":
		return "POST", "/resource", refctl.ContentJSON, []byte(`{"resource-type":"image","image-width":4,"image-height":4}`), true
	case "identify":
		return "POST", "/identify", "", nil, false
	}
	if strings.HasPrefix(op, "other-method ") {
		f := strings.Fields(op)
		body := refctl.PutBody(refctl.CharValue{AID: aid, IID: onID, Value: refctl.RawJSON(true)})
		ct := refctl.ContentJSON
		if f[2] == "/pairings" {
			body, ct = refctl.PairingsAdd(at.me.ID, at.me.LTPK, true), refctl.ContentTLV8
		}
		if f[2] == "/pairings-remove" {
			f[2] = "/pairings"
			body, ct = refctl.PairingsRemove(w.L.ID), refctl.ContentTLV8
		}
		if f[2] == "/resource" {
			body = []byte(`{"resource-type":"image","image-width":4,"image-height":4}`)
		}
		if f[1] == "GET" || f[1] == "HEAD" {
			body = nil
		}
		target := f[2]
		if target == "/characteristics" {
			target += fmt.Sprintf("?id=%d.%d", aid, onID)
		}
		return f[1], target, ct, body, true
	}
	return "", "", "", nil, false
}

func main() {
	if len(os.Args) > 5 && os.Args[1] == "-conc-child" {
		concChildMain()
		return
	}
	run = vf.Start("C01", "exploration")
	r := run
	r.SetRule("a history = up to 12 steps on one or two attacker connections over an alphabet of 8 protected requests (plaintext and under attacker-derivable keys), 11 handshake fragments / forgeries and interleaved operations of a legitimate controller; " +
		"after every attacker request: refused, no canary / attribute token disclosed, no value / callback / pairing changed; at the end a local change of every characteristic and a fence on every attacker connection (no EVENT); " +
		"non-trivial = distinct history; all sequences of length <= 2 over the protected+handshake alphabet are included")
	r.Assume("the attacker holds neither the setup code nor a paired long-term key; /identify is not one of the protected operations")
	r.Watchdog(time.Duration(r.Pick(20, 90)) * time.Minute)
	rnd := r.Rand("c01")
	dir := app.ScratchDir(r.WorkDir(), "store")
	defer os.RemoveAll(dir)
	defer os.RemoveAll(filepath.Join(filepath.Dir(dir), "sibling-of-"+filepath.Base(dir)))
	L := refctl.NewIdentity("legit-controller", rnd)
	w, err := build(rnd, dir, L)
	if err != nil {
		r.Inconclusive("setup: " + err.Error())
		r.Finish()
	}
	defer w.a.Stop()

	alph := append(append([]string{}, protectedOps...), handshakeOps...)
	var histories [][]step
	// all sequences of length <= 2
	for _, x := range alph {
		histories = append(histories, []step{{Op: x}})
		for _, y := range protectedOps[:8] {
			histories = append(histories, []step{{Op: x}, {Op: y}})
		}
	}
	// every forged / failed pair-verify followed by ciphertext under the key of that exchange, and the same after
	// a failed or forged pair-setup
	for _, x := range handshakeOps {
		if strings.HasPrefix(x, "verify M3") || strings.HasPrefix(x, "setup") || x == "verify M1 short-key" {
			for _, y := range []string{"encrypted GET /accessories", "encrypted PUT value", "encrypted-zero GET /accessories"} {
				histories = append(histories, []step{{Op: "verify M1"}, {Op: x}, {Op: y}})
				histories = append(histories, []step{{Op: "verify M1"}, {Op: x}, {Op: "verify M1"}, {Op: y}})
			}
			for _, y := range protectedOps {
				histories = append(histories, []step{{Op: "verify M1"}, {Op: x}, {Op: y}})
			}
		}
	}
	for _, seq := range [][]string{
		{"setup M1", "setup M3 A=0", "setup M5 zero-key", "GET /accessories"},
		{"setup M1", "setup M3 wrong-proof", "setup M5 zero-key", "POST /pairings add"},
		{"setup M1", "setup M5 zero-key", "PUT value"},
	} {
		var h []step
		for _, o := range seq {
			h = append(h, step{Op: o})
		}
		histories = append(histories, h)
	}
	// a complete pair-setup run with each public guess: at once, after a failed attempt, after a forged exchange; then
	// (should anything have been stored) a protected request
	for _, g := range []string{"accessory-id", "accessory-name", "empty", "srp-user"} {
		for _, pre := range [][]string{{}, {"setup M1", "setup M3 wrong-proof"}, {"setup M1", "setup M3 A=0"}, {"setup M1", "setup M5 zero-key"}, {"setup M1", "setup M3 wrong-proof", "setup M1", "setup M3 wrong-proof"}} {
			var h []step
			for _, o := range append(append([]string{}, pre...), "setup M1", "setup M3 guess:"+g, "setup M5 guess-key", "GET /accessories") {
				h = append(h, step{Op: o})
			}
			histories = append(histories, h)
		}
	}
	// persistence: many failed attempts on one connection (counters, lock-outs), then protected requests in plaintext and
	// under the keys of the last failed exchange
	for _, k := range []int{100, r.Pick(3, 256)} {
		for _, pair := range [][2]string{{"verify M1", "verify M3 L-bad-signature"}, {"verify M1", "verify M3 unknown-name"}, {"verify M1", "verify M3 name-is-a-path"}, {"verify M1", "verify M3 unknown-name+small-order-signature"}, {"setup M1", "setup M3 wrong-proof"}, {"setup M1", "setup M3 A=0"}} {
			var h []step
			for i := 0; i < k; i++ {
				h = append(h, step{Op: pair[0]}, step{Op: pair[1]})
			}
			h = append(h, step{Op: pair[0]}, step{Op: pair[1]}, step{Op: "GET /accessories"}, step{Op: "PUT value"}, step{Op: "POST /pairings add"})
			if pair[0] == "verify M1" {
				h = append(h, step{Op: "verify M1"}, step{Op: pair[1]}, step{Op: "encrypted GET /accessories"})
			} else {
				h = append(h, step{Op: "setup M5 zero-key"}, step{Op: "GET /accessories"})
			}
			histories = append(histories, h)
		}
	}
	if r.Thorough() {
		for _, x := range alph {
			for _, y := range alph {
				histories = append(histories, []step{{Op: x}, {Op: y}, {Op: protectedOps[rnd.Intn(len(protectedOps))]}})
			}
		}
	}
	n := r.Pick(150, 5000)
	for i := 0; i < n; i++ {
		k := 3 + rnd.Intn(10)
		h := make([]step, k)
		for j := range h {
			if rnd.Intn(2) == 0 {
				h[j] = step{Op: protectedOps[rnd.Intn(len(protectedOps))]}
			} else {
				h[j] = step{Op: handshakeOps[rnd.Intn(len(handshakeOps))]}
			}
		}
		histories = append(histories, h)
	}
	pristine := readAll(dir)
	for hno, h := range histories {
		r.Eval()
		r.Nontrivial(fmt.Sprint(h))
		v0 := r.ViolationCount()
		r.Guard("history", func() { runHistory(w, hno, h, rand.New(rand.NewSource(r.Seed*131+int64(hno)))) })
		if r.ViolationCount() != v0 {
			// a violating history may have damaged the world (e.g. removed L's pairing): restore the storage
			restore(dir, pristine)
		}
		if hno%97 == 0 {
			r.Sample(map[string]interface{}{"history": h})
		}
	}
	v0 := r.ViolationCount()
	r.Guard("collisions", func() { collisions(w, r.Rand("collisions")) })
	if r.ViolationCount() != v0 {
		restore(dir, pristine)
	}
	// controllers whose pairing is removed while they verify
	v0 = r.ViolationCount()
	r.Guard("removed controllers", func() { removedControllers(r, w) })
	if r.ViolationCount() != v0 {
		restore(dir, pristine)
	}
	// concurrent phase (this build, then a child built with the race detector)
	v0 = r.ViolationCount()
	r.Guard("concurrent", func() { mergeConcurrent(r, concurrentPhase(w, r.Seed, r.Pick(1500, 20000)), "plain") })
	if r.ViolationCount() != v0 {
		restore(dir, pristine)
	}
	r.Guard("concurrent race child", func() { concurrentRaceChild(r, r.Pick(600, 6000)) })
	r.Floor("concurrent_attacker_requests_refused", int(r.Counter("concurrent_attacker_requests_refused")), r.Pick(6000, 80000))
	r.Floor("concurrent_answers_abandoned_by_a_verified_controller", int(r.Counter("concurrent_answers_abandoned_by_a_verified_controller")), 100)
	r.Floor("concurrent_legit_requests_served", int(r.Counter("concurrent_legit_requests_served")), 1000)
	r.Floor("collision_scenarios", int(r.Counter("collision_scenarios")), 8)
	r.Floor("attacker_requests", int(r.Counter("attacker_requests")), 1000)
	r.Floor("setup_runs_with_a_public_guess", int(r.Counter("setup_runs_with_a_public_guess")), 20)
	r.Floor("fences", int(r.Counter("fences_on_attacker_connections")), 100)
	r.Floor("legit_operations_ok", int(r.Counter("legit_operations_ok")), 50)
	r.Finish()
}

func (w *world) legit() (*refctl.Conn, error) {
	c, err := w.a.Verified(w.L, w.accLTPK, w.accID)
	if err != nil {
		return nil, err
	}
	c.Timeout = 10 * time.Second
	return c, nil
}

func runHistory(w *world, hno int, h []step, rnd *rand.Rand) {
	lc, err := w.legit()
	if err != nil {
		run.Inconclusive("legitimate controller cannot verify: " + err.Error())
		return
	}
	defer lc.Close()
	lAddr := lc.LocalAddr()
	newAttacker := func() *attacker {
		c, err := refctl.Dial(w.a.Addr)
		if err != nil {
			return nil
		}
		c.Timeout = 3 * time.Second
		return &attacker{c: c, me: refctl.NewIdentity(fmt.Sprintf("attacker-%d", hno), rnd)}
	}
	ats := []*attacker{newAttacker()}
	cur := 0
	defer func() {
		for _, a := range ats {
			if a != nil {
				a.c.Close()
			}
		}
	}()
	var trace []map[string]interface{}
	wit := func() map[string]interface{} {
		return map[string]interface{}{"history_no": hno, "history": h, "trace": trace}
	}
	subscribedOnce := false

	check := func(at *attacker, st step, before state, m *refctl.Message, err error, protected bool, encrypted bool) bool {
		mode := "plaintext"
		if encrypted {
			mode = "ciphertext-under-attacker-key"
		}
		rec := map[string]interface{}{"op": st.Op, "mode": mode}
		trace = append(trace, rec)
		if err != nil {
			rec["result"] = "no answer: " + err.Error()
		} else {
			rec["status"] = m.Status
			rec["body"] = trim(string(m.Body), 120)
		}
		run.Count("attacker_requests", 1)
		run.Distinct("(operation,mode)", st.Op+"/"+mode)
		// 2. disclosure
		if m != nil {
			for _, cn := range w.canaries {
				if bytes.Contains(m.Body, []byte(cn)) {
					run.Violation("disclosure:"+st.Op+":"+mode+":canary", fmt.Sprintf("the answer to %s on a connection that is not pair-verified contains a planted value", st.Op), wit())
					return false
				}
			}
			if bytes.Contains(m.Body, []byte(`"iid"`)) {
				run.Violation("disclosure:"+st.Op+":"+mode+":attribute-database", fmt.Sprintf("the answer to %s on a connection that is not pair-verified contains attribute database content", st.Op), wit())
				return false
			}
		}
		// 1. refusal
		if protected && m != nil && m.Status >= 200 && m.Status <= 299 {
			run.Violation("served:"+st.Op+":"+mode, fmt.Sprintf("%s on a connection that is not pair-verified was answered with status %d", st.Op, m.Status), wit())
			return false
		}
		if protected {
			run.Count("protected_requests_refused", 1)
		}
		// 3. nothing changed
		if d := diffState(before, w.state()); len(d) > 0 {
			// callbacks attributable to L's own connection cannot occur here (L is idle during the attacker's request)
			run.Violation("changed:"+st.Op+":"+mode+":"+strings.Join(classOnly(d), "+"), fmt.Sprintf("%s on a connection that is not pair-verified changed: %v", st.Op, d), wit())
			return false
		}
		return true
	}

	for _, st := range h {
		at := ats[cur]
		if at == nil {
			return
		}
		switch {
		case st.Op == "switch-connection":
			if len(ats) == 1 {
				ats = append(ats, newAttacker())
			}
			cur = 1 - cur
			continue
		case strings.HasPrefix(st.Op, "L "):
			before := w.state()
			ok := legitOp(w, lc, st.Op, rnd, &subscribedOnce)
			trace = append(trace, map[string]interface{}{"op": st.Op, "by": "legitimate controller", "ok": ok})
			if ok {
				run.Count("legit_operations_ok", 1)
			}
			// callbacks caused by L are attributed to L's address
			w.mu.Lock()
			for _, cb := range w.callbacks[before.callbacks:] {
				if !strings.HasPrefix(cb, lAddr+" ") {
					run.Violation("changed:callback-from-foreign-connection", "an application callback fired for a connection that is not the legitimate controller's: "+cb, wit())
				}
			}
			w.mu.Unlock()
			continue
		case strings.HasPrefix(st.Op, "encrypted"):
			// ciphertext under a key the attacker can derive itself: the last exchange's secret, or the all-zero secret
			sh := make([]byte, 32)
			if len(at.keys) > 0 && strings.HasPrefix(st.Op, "encrypted ") {
				sh = at.keys[len(at.keys)-1]
			}
			op := strings.TrimPrefix(strings.TrimPrefix(st.Op, "encrypted-zero "), "encrypted ")
			method, target, ctype, body, _ := w.request(op, rnd, at)
			before := w.state()
			at.c.Secure(sh)
			at.c.Timeout = 2 * time.Second
			// the sealed request is followed by plaintext line ends: a connection that is (correctly) still in
			// plaintext then sees a terminated garbage request line and answers 400 at once instead of waiting for
			// more bytes; a connection that (wrongly) decrypts has answered the request before it reaches them
			var m *refctl.Message
			err := at.c.SendMany(refctl.BuildRequest(method, target, ctype, body))
			if err == nil {
				at.c.WriteRaw([]byte("\r\n\r\n"))
				m, err = at.c.ReadResponse()
			}
			if !check(at, step{Op: op}, before, m, err, true, true) {
				return
			}
			// the connection is unusable after a ciphertext probe: replace it
			at.c.Close()
			ats[cur] = newAttacker()
			continue
		case strings.HasPrefix(st.Op, "setup ") || strings.HasPrefix(st.Op, "verify "):
			before := w.state()
			msg, path := handshakeMessage(w, at, st.Op, rnd)
			m, err := at.c.Do("POST", path, refctl.ContentTLV8, msg)
			run.Count("handshake_fragments", 1)
			handshakeResponse(at, st.Op, m, err)
			if !check(at, st, before, m, err, false, false) {
				return
			}
			if err != nil {
				at.c.Close()
				ats[cur] = newAttacker()
			}
			continue
		default:
			method, target, ctype, body, protected := w.request(st.Op, rnd, at)
			if method == "" {
				continue
			}
			before := w.state()
			m, err := at.c.Do(method, target, ctype, body)
			if !check(at, st, before, m, err, protected, false) {
				return
			}
			if err != nil {
				at.c.Close()
				ats[cur] = newAttacker()
			}
		}
	}
	// 4. final fence: change every subscribable value locally; no EVENT may reach an attacker connection
	w.sw.Switch.On.SetValue(!w.sw.Switch.On.GetValue())
	w.bulb.Lightbulb.Brightness.SetValue((w.bulb.Lightbulb.Brightness.GetValue() + 7) % 100)
	w.note.SetValue(w.note.GetValue() + "+")
	w.canaries = append(w.canaries[:0:0], w.canaries...) // (note's canary prefix stays)
	for _, at := range ats {
		if at == nil || at.c.IsSecure() {
			continue
		}
		// cheap plaintext request; every EVENT addressed to this connection precedes its answer
		m, err := at.c.Do("POST", "/pair-verify", refctl.ContentTLV8, []byte{0x06, 0x01, 0x09})
		run.Count("fences_on_attacker_connections", 1)
		evs := at.c.TakeEvents()
		if len(evs) > 0 {
			trace = append(trace, map[string]interface{}{"fence": "events", "first_event_body": trim(string(evs[0].Body), 100)})
			run.Violation("event:delivered-to-unverified-connection", fmt.Sprintf("%d EVENT message(s) arrived on a connection that never completed pair-verify", len(evs)), wit())
			return
		}
		_, _ = m, err
	}
	// L must have received its events if it subscribed (sanity of the fence itself)
	if subscribedOnce {
		if _, err := lc.Do("GET", fmt.Sprintf("/characteristics?id=%d.%d", w.sw.Accessory.ID, w.sw.Switch.On.ID), "", nil); err == nil {
			if len(lc.TakeEvents()) > 0 {
				run.Count("legit_events_received", 1)
			}
		}
	}
	// 5. verification does not carry over: a fresh plaintext connection and the attacker after L closed are refused
	lc.Close()
	probe := newAttacker()
	if probe != nil {
		before := w.state()
		m, err := probe.c.Do("GET", "/accessories", "", nil)
		check(probe, step{Op: "GET /accessories", Arg: "after L closed"}, before, m, err, true, false)
		probe.c.Close()
	}
}

func classOnly(d []string) []string {
	var out []string
	for _, x := range d {
		if i := strings.IndexByte(x, '['); i > 0 {
			x = x[:i]
		}
		out = append(out, x)
	}
	return out
}

func trim(s string, n int) string {
	if len(s) > n {
		return s[:n] + "..."
	}
	return s
}

// legitOp performs one operation of the legitimate controller and checks that it works.
func legitOp(w *world, lc *refctl.Conn, op string, rnd *rand.Rand, subscribed *bool) bool {
	aid, on := w.sw.Accessory.ID, w.sw.Switch.On
	switch op {
	case "L read":
		m, err := lc.Do("GET", fmt.Sprintf("/characteristics?id=%d.%d", aid, on.ID), "", nil)
		return err == nil && m.Status == 200
	case "L write":
		m, err := lc.Do("PUT", "/characteristics", refctl.ContentJSON, refctl.PutBody(refctl.CharValue{AID: aid, IID: on.ID, Value: refctl.RawJSON(!on.GetValue())}))
		return err == nil && m.Status == 204
	case "L subscribe":
		t := true
		m, err := lc.Do("PUT", "/characteristics", refctl.ContentJSON, refctl.PutBody(refctl.CharValue{AID: aid, IID: on.ID, Ev: &t}))
		*subscribed = err == nil
		return err == nil && m.Status == 204
	}
	return false
}

func handshakeMessage(w *world, at *attacker, op string, rnd *rand.Rand) ([]byte, string) {
	switch op {
	case "setup M1":
		return refctl.SetupM1(), "/pair-setup"
	case "setup M3 wrong-proof":
		cl := refctl.NewSRPClient(rnd)
		proof := make([]byte, 64)
		rnd.Read(proof)
		if at.srpSalt != nil {
			if cl.Compute(at.srpSalt, at.srpB, "000-00-001") == nil {
				proof = cl.M1
			}
		}
		return refctl.SetupM3(cl.Abytes, proof), "/pair-setup"
	case "setup M3 guess:accessory-id", "setup M3 guess:accessory-name", "setup M3 guess:empty", "setup M3 guess:srp-user":
		pw := map[string]string{"accessory-id": w.accID, "accessory-name": w.accName, "empty": "", "srp-user": "Pair-Setup"}[strings.TrimPrefix(op, "setup M3 guess:")]
		cl := refctl.NewSRPClient(rnd)
		proof := make([]byte, 64)
		at.srpK = nil
		if at.srpSalt != nil && cl.Compute(at.srpSalt, at.srpB, pw) == nil {
			proof, at.srpK = cl.M1, cl.K
		}
		run.Count("setup_runs_with_a_public_guess", 1)
		return refctl.SetupM3(cl.Abytes, proof), "/pair-setup"
	case "setup M3 A=0":
		p := make([]byte, 64)
		return refctl.SetupM3([]byte{0}, p), "/pair-setup"
	case "setup M5 zero-key":
		return refctl.SetupM5([32]byte{}, refctl.SetupM5Plain(nil, at.me.ID, at.me.LTPK, at.me.LTSK)), "/pair-setup"
	case "setup M5 guess-key":
		k := at.srpK
		if k == nil {
			k = make([]byte, 64)
			rnd.Read(k)
		}
		return refctl.SetupM5(refctl.SetupEncKey(k), refctl.SetupM5Plain(k, at.me.ID, at.me.LTPK, at.me.LTSK)), "/pair-setup"
	case "verify M1":
		at.curPriv, at.curPub = refctl.NewEphemeral(rnd)
		return refctl.VerifyM1(at.curPub[:]), "/pair-verify"
	case "verify M1 short-key":
		_, p := refctl.NewEphemeral(rnd)
		return refctl.VerifyM1(p[:31]), "/pair-verify"
	}
	// forged finishes
	key := at.encKey
	pub, accPub := at.curPub[:], at.accPub
	if !at.haveExchange {
		_, p := refctl.NewEphemeral(rnd)
		accPub = p[:]
	}
	switch op {
	case "verify M3 unknown-name":
		return refctl.VerifyM3(key, refctl.VerifyM3Plain("nobody-knows-me", at.me.LTSK, pub, accPub)), "/pair-verify"
	case "verify M3 accessory-name":
		return refctl.VerifyM3(key, refctl.VerifyM3Plain(w.accID, at.me.LTSK, pub, accPub)), "/pair-verify"
	case "verify M3 L-bad-signature":
		return refctl.VerifyM3(key, refctl.VerifyM3Plain(w.L.ID, at.me.LTSK, pub, accPub)), "/pair-verify"
	case "verify M3 zero-key":
		return refctl.VerifyM3([32]byte{}, refctl.VerifyM3Plain(w.accID, at.me.LTSK, pub, accPub)), "/pair-verify"
	case "verify M3 unknown-name+small-order-signature":
		// a name nobody stored and a signature nobody needs a key for: R||S with S = 0 and R a point of small order verifies
		// under the all-zero "public key" for most messages; the peer varies the name until it does (all offline)
		var zero [32]byte
		small := [][]byte{{1}, {}, {0xec, 0xff, 0xff, 0xff, 0xff, 0xff, 0xff, 0xff, 0xff, 0xff, 0xff, 0xff, 0xff, 0xff, 0xff, 0xff, 0xff, 0xff, 0xff, 0xff, 0xff, 0xff, 0xff, 0xff, 0xff, 0xff, 0xff, 0xff, 0xff, 0xff, 0xff, 0x7f}, {31: 0x80}}
		name, sig := "nobody-knows-me", make([]byte, 64)
	search:
		for i := 0; i < 64; i++ {
			n := fmt.Sprintf("nobody-%d-%d", rnd.Intn(1000000), i)
			info := append(append(append([]byte{}, pub...), []byte(n)...), accPub...)
			for _, R := range small {
				cand := make([]byte, 64)
				copy(cand, R)
				if ed25519.Verify(ed25519.PublicKey(zero[:]), info, cand) {
					name, sig = n, cand
					run.Count("forged_signatures_that_verify_under_the_all_zero_key", 1)
					break search
				}
			}
		}
		e := &refctl.Enc{}
		sub := e.Bytes(refctl.TagIdentifier, []byte(name)).Bytes(refctl.TagSignature, sig).B
		return refctl.VerifyM3(key, sub), "/pair-verify"
	case "verify M3 name-is-a-path":
		// the peer IS paired - with another accessory on the same host, whose storage folder lies next to this one's.  It
		// names itself by a path that leads from this accessory's folder to its record over there and signs with its own key
		sib := filepath.Join(filepath.Dir(w.dir), "sibling-of-"+filepath.Base(w.dir))
		if !at.inSibling {
			os.MkdirAll(sib, 0o755)
			if err := app.StoreController(sib, at.me); err != nil {
				run.Inconclusive("sibling accessory storage: " + err.Error())
			}
			at.inSibling = true
			run.Count("attackers_paired_with_a_sibling_accessory", 1)
		}
		rel := "../" + filepath.Base(sib) + "/"
		name := []string{rel + hex.EncodeToString([]byte(at.me.ID)), "./" + rel + hex.EncodeToString([]byte(at.me.ID)), rel + hex.EncodeToString([]byte(at.me.ID)) + ".entity", sib + "/" + hex.EncodeToString([]byte(at.me.ID))}[rnd.Intn(4)]
		return refctl.VerifyM3(key, refctl.VerifyM3Plain(name, at.me.LTSK, pub, accPub)), "/pair-verify"
	case "verify M3 short":
		return refctl.VerifyM3Raw([]byte{1, 2, 3}), "/pair-verify"
	}
	return []byte{}, "/pair-verify"
}

func handshakeResponse(at *attacker, op string, m *refctl.Message, err error) {
	if err != nil || m == nil || m.Status != 200 {
		if strings.HasPrefix(op, "verify M3") {
			at.haveExchange = false
		}
		return
	}
	t, perr := refctl.ParseTLV(m.Body)
	if perr != nil {
		return
	}
	switch op {
	case "setup M1":
		at.srpSalt, _ = t.Get(refctl.TagSalt)
		at.srpB, _ = t.Get(refctl.TagPublicKey)
	case "verify M1":
		ap, _ := t.Get(refctl.TagPublicKey)
		if len(ap) == 32 {
			if sh, e := x25519(at.curPriv[:], ap); e == nil {
				at.accPub = ap
				at.encKey = refctl.VerifyEncKey(sh)
				at.keys = append(at.keys, sh)
				at.haveExchange = true
			}
		}
	default:
		if strings.HasPrefix(op, "verify M3") {
			at.haveExchange = false
			if st, _ := t.Byte(refctl.TagState); st == 4 {
				if _, bad := t.Byte(refctl.TagError); !bad {
					run.Count("forged_finishes_answered_without_an_error:"+op, 1)
				}
			}
		}
	}
}

var _ = json.Marshal

func readAll(dir string) map[string][]byte {
	out := map[string][]byte{}
	ents, _ := os.ReadDir(dir)
	for _, e := range ents {
		if b, err := os.ReadFile(dir + "/" + e.Name()); err == nil {
			out[e.Name()] = b
		}
	}
	return out
}

func restore(dir string, files map[string][]byte) {
	ents, _ := os.ReadDir(dir)
	for _, e := range ents {
		if _, ok := files[e.Name()]; !ok {
			os.Remove(dir + "/" + e.Name())
		}
	}
	for n, b := range files {
		os.WriteFile(dir+"/"+n, b, 0o666)
	}
}

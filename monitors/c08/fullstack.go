package main

// Harness B: the same property on a real transport.  K verified controllers subscribe to several
// characteristics; application goroutines (one per characteristic) and the controllers themselves change
// values while every controller keeps issuing small GET requests.  Responses (written by net/http's
// goroutine of that connection) and EVENTs (written by whichever goroutine changed the value) therefore meet
// on every connection.  Each controller's byte stream must keep decrypting frame by frame in arrival order
// (the reference session layer fails at the first frame that does not authenticate at the next counter) and
// must parse as a sequence of complete HTTP responses / EVENT messages.
// Responses are kept within a single Write (small GETs) because hc may legitimately emit an EVENT between two
// Writes of one large response (DESIGN §9).

import (
	"encoding/json"
	"fmt"
	"os"
	"sync"
	"sync/atomic"
	"time"

	"github.com/brutella/hc/accessory"

	"verif/harness/app"
	"verif/refctl"
	"verif/vf"
)

type fsResult struct {
	Sig, What string
	Witness   map[string]interface{}
	Responses int64
	Events    int64
	Frames    int64
	// EventsWhilePending counts EVENTs that arrived between a request and its response: the two writers met.
	EventsWhilePending int64
}

func fullStackRound(seed int64, controllers, changesPerChar, getsPerCtrl int, workDir string) fsResult {
	var res fsResult
	dir := app.ScratchDir(workDir, "fs")
	defer os.RemoveAll(dir)
	ids := make([]*refctl.Identity, controllers)
	for i := range ids {
		ids[i] = refctl.NewIdentity(fmt.Sprintf("c08-ctrl-%d", i), nil)
		app.StoreController(dir, ids[i])
	}
	bridge := accessory.NewBridge(accessory.Info{Name: "C08 Bridge"})
	sw := accessory.NewSwitch(accessory.Info{Name: "sw"})
	bulb := accessory.NewColoredLightbulb(accessory.Info{Name: "bulb"})
	out := accessory.NewOutlet(accessory.Info{Name: "outlet"})
	a, err := app.Start(dir, "00102003", bridge.Accessory, sw.Accessory, bulb.Accessory, out.Accessory)
	if err != nil {
		res.Sig, res.What = "inconclusive", "transport: "+err.Error()
		return res
	}
	defer a.Stop()
	acc, _ := app.AccessoryEntity(dir)

	type target struct{ aid, iid uint64 }
	subs := []target{
		{sw.Accessory.ID, sw.Switch.On.ID},
		{bulb.Accessory.ID, bulb.Lightbulb.Brightness.ID},
		{bulb.Accessory.ID, bulb.Lightbulb.Hue.ID},
		{out.Accessory.ID, out.Outlet.On.ID},
	}
	var mu sync.Mutex
	var stop int32 // set at the first failure: every goroutine of the round winds down
	fail := func(sig, what string, w map[string]interface{}) {
		atomic.StoreInt32(&stop, 1)
		mu.Lock()
		if res.Sig == "" {
			res.Sig, res.What, res.Witness = sig, what, w
		}
		mu.Unlock()
	}
	conns := make([]*refctl.Conn, controllers)
	for i := range conns {
		c, err := a.Verified(ids[i], acc.PublicKey, acc.Name)
		if err != nil {
			res.Sig, res.What = "inconclusive", "pair-verify: "+err.Error()
			return res
		}
		c.Timeout = 8 * time.Second
		defer c.Close()
		conns[i] = c
		// subscribe to everything
		var entries []refctl.CharValue
		t := true
		for _, s := range subs {
			entries = append(entries, refctl.CharValue{AID: s.aid, IID: s.iid, Ev: &t})
		}
		m, err := c.Do("PUT", "/characteristics", refctl.ContentJSON, refctl.PutBody(entries...))
		if err != nil || m.Status != 204 {
			res.Sig, res.What = "inconclusive", fmt.Sprintf("subscribe failed: %v", err)
			return res
		}
	}

	var wg sync.WaitGroup
	// application writers: one goroutine per characteristic, same-typed changing values
	appDone := make(chan struct{})
	var appWG sync.WaitGroup
	appWG.Add(4)
	go func() {
		defer appWG.Done()
		for i := 0; i < changesPerChar; i++ {
			sw.Switch.On.SetValue(i%2 == 0)
		}
	}()
	go func() {
		defer appWG.Done()
		for i := 0; i < changesPerChar; i++ {
			bulb.Lightbulb.Brightness.SetValue(i % 101)
		}
	}()
	go func() {
		defer appWG.Done()
		for i := 0; i < changesPerChar; i++ {
			bulb.Lightbulb.Hue.SetValue(float64(i % 360))
		}
	}()
	go func() {
		defer appWG.Done()
		for i := 0; i < changesPerChar; i++ {
			out.Outlet.On.SetValue(i%2 == 1)
		}
	}()
	go func() { appWG.Wait(); close(appDone) }()

	// controllers: a sender and a reader per connection
	for ci, c := range conns {
		ci, c := ci, c
		var pending int64 // requests sent and not yet answered
		wg.Add(2)
		go func() { // sender
			defer wg.Done()
			req := refctl.BuildRequest("GET", fmt.Sprintf("/characteristics?id=%d.%d", sw.Accessory.ID, sw.Info.Manufacturer.ID), "", nil)
			for i := 0; i < getsPerCtrl; i++ {
				for atomic.LoadInt64(&pending) > 4 && atomic.LoadInt32(&stop) == 0 { // do not run ahead of the reader too far
					yield()
				}
				if atomic.LoadInt32(&stop) != 0 {
					return
				}
				atomic.AddInt64(&pending, 1)
				if err := c.Send(req); err != nil {
					fail("fullstack:send-failed", fmt.Sprintf("controller %d cannot send: %v", ci, err), nil)
					return
				}
			}
		}()
		go func() { // reader
			defer wg.Done()
			answered := 0
			for answered < getsPerCtrl && atomic.LoadInt32(&stop) == 0 {
				m, err := c.ReadMessage()
				if err != nil {
					switch e := err.(type) {
					case *refctl.ErrBadFrame:
						fail("fullstack:frame-does-not-authenticate", fmt.Sprintf("controller %d: frame %d from the accessory does not authenticate at the next counter: responses and notifications were written concurrently", ci, e.Counter),
							map[string]interface{}{"controller": ci, "frame_counter": e.Counter, "frame_head": vf.Hex(e.Head), "responses_so_far": answered})
					case *refctl.MalformedError:
						fail("fullstack:message-garbled", fmt.Sprintf("controller %d: the decrypted stream does not parse as a sequence of messages: %s", ci, e.Why),
							map[string]interface{}{"controller": ci, "responses_so_far": answered})
					default:
						if err == refctl.ErrTimeout {
							fail("inconclusive", fmt.Sprintf("controller %d: read watchdog expired after %d responses", ci, answered), nil)
						} else {
							fail("fullstack:connection-lost", fmt.Sprintf("controller %d lost its connection after %d responses: %v", ci, answered, err), map[string]interface{}{"controller": ci})
						}
					}
					return
				}
				atomic.StoreInt64(&res.Frames, atomic.LoadInt64(&res.Frames)) // (frames are summed at the end)
				if m.IsEvent() {
					atomic.AddInt64(&res.Events, 1)
					if atomic.LoadInt64(&pending) > 0 {
						atomic.AddInt64(&res.EventsWhilePending, 1)
					}
					var body struct {
						Characteristics []struct {
							AID   uint64           `json:"aid"`
							IID   uint64           `json:"iid"`
							Value *json.RawMessage `json:"value"`
						} `json:"characteristics"`
					}
					if json.Unmarshal(m.Body, &body) != nil || len(body.Characteristics) != 1 || body.Characteristics[0].Value == nil {
						fail("fullstack:event-body-garbled", fmt.Sprintf("controller %d: EVENT body is not one characteristic with a value: %q", ci, trim(string(m.Body), 120)), nil)
						return
					}
					continue
				}
				if m.Status != 200 {
					fail("fullstack:response-status", fmt.Sprintf("controller %d: GET answered %d", ci, m.Status), nil)
					return
				}
				var cl refctl.CharList
				if json.Unmarshal(m.Body, &cl) != nil || len(cl.Characteristics) != 1 {
					fail("fullstack:response-body-garbled", fmt.Sprintf("controller %d: response body does not parse: %q", ci, trim(string(m.Body), 120)), nil)
					return
				}
				answered++
				atomic.AddInt64(&res.Responses, 1)
				atomic.AddInt64(&pending, -1)
			}
		}()
	}
	wg.Wait()
	<-appDone
	for _, c := range conns {
		res.Frames += int64(c.FramesIn)
	}
	return res
}

func fullStack(r *vf.Run, build string, rounds int) {
	for i := 0; i < rounds; i++ {
		res := fullStackRound(r.Seed*977+int64(i), 4, r.Pick(300, 1500), r.Pick(200, 1000), r.WorkDir())
		r.Eval()
		r.Count("fullstack_rounds_"+build, 1)
		if res.Sig == "inconclusive" {
			r.Inconclusive("harness B: " + res.What)
			return
		}
		r.Count("fullstack_responses", int(res.Responses))
		r.Count("fullstack_events", int(res.Events))
		r.Count("fullstack_frames_decrypted_in_order", int(res.Frames))
		r.Count("fullstack_events_between_request_and_response", int(res.EventsWhilePending))
		if res.EventsWhilePending > 0 {
			r.Nontrivial(fmt.Sprintf("fullstack/%s/%d/%d", build, i, res.EventsWhilePending))
		}
		if res.Sig != "" {
			r.Violation(res.Sig, res.What, res.Witness)
		}
	}
}

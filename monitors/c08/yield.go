package main

import "runtime"

func yield() { runtime.Gosched() }

package main

import (
	"fmt"
	"math/rand"
	"sync"
	"sync/atomic"
	"time"

	"verif/harness/hcx"
	"verif/harness/script"
	"verif/vf"
)

// Long stall: one socket write of a connection does not return for T seconds of REAL time (a controller that has stopped
// reading; 12 s in quick, 70 s in thorough runs: beyond the 5, 10, 30 and 60 s a "give up waiting" limit would use).
// Writer A is inside that socket write; B and C call Write meanwhile and wait for the connection; when the socket
// moves again D and E write.  Whatever a writer that waited that long is told (nil or an error), the stream on the
// wire must stay what the peer can decrypt: frames in counter order, payloads complete and at most once, every payload
// whose Write returned nil present.  (Virtual time cannot produce this: a wait limit inside the library is a timer, not a
// deadline of the connection.)
func longStall(r *vf.Run) {
	T := time.Duration(r.Pick(12, 70)) * time.Second
	rnd := rand.New(rand.NewSource(r.Seed*991 + 7))
	var secret [32]byte
	rnd.Read(secret[:])
	ctx := hcx.NewContext()
	sc := script.New(nil)
	sc.KeepReads = false
	var first int32
	stalled := make(chan struct{})
	// The stall is a window of T seconds that starts with the first socket write after the handshake.  A socket write
	// inside the window waits for its end - or for the write deadline its caller has set, whichever comes first: then it
	// returns a timeout with NOTHING written, as a socket with a full send buffer does.
	st := &stallConn{Conn: sc}
	st.begin = func() {
		if atomic.CompareAndSwapInt32(&first, 1, 2) {
			st.mu.Lock()
			st.until = time.Now().Add(T)
			st.mu.Unlock()
			close(stalled)
		}
	}
	hc, err := hcx.ServerConn(st, ctx, secret)
	if err != nil {
		r.Inconclusive("long stall: ServerConn: " + err.Error())
		return
	}
	hc.Write(m4) // M4 in plaintext, then encrypted
	hc.SetReadDeadline(time.Now().Add(time.Millisecond))
	hc.Read(make([]byte, 16))
	hc.SetReadDeadline(time.Time{})
	atomic.StoreInt32(&first, 1)
	sent := map[[2]int][]byte{}
	recs := make([][]writeRec, 5)
	failed := map[[2]int]string{}
	var mu sync.Mutex
	var clock int64
	write := func(w int) {
		wr := rand.New(rand.NewSource(r.Seed*131 + int64(w)))
		p := payload(w, 0, 300+wr.Intn(2500), wr)
		mu.Lock()
		sent[[2]int{w, 0}] = p
		mu.Unlock()
		rec := writeRec{Writer: w, Seq: 0, Len: len(p)}
		rec.Call = atomic.AddInt64(&clock, 1)
		_, err := hc.Write(append([]byte{}, p...))
		rec.Return = atomic.AddInt64(&clock, 1)
		mu.Lock()
		recs[w] = append(recs[w], rec)
		if err != nil {
			failed[[2]int{w, 0}] = err.Error()
		}
		mu.Unlock()
	}
	var wg sync.WaitGroup
	run1 := func(w int) { wg.Add(1); go func() { defer wg.Done(); write(w) }() }
	run1(0)
	select {
	case <-stalled:
	case <-time.After(10 * time.Second):
		r.Inconclusive("long stall: the first socket write was never reached")
		return
	}
	time.Sleep(200 * time.Millisecond)
	run1(1)
	run1(2)
	done := make(chan struct{})
	go func() { wg.Wait(); close(done) }()
	select {
	case <-done:
	case <-time.After(T + 60*time.Second):
		r.Violation("long-stall:writers-never-return", fmt.Sprintf("a socket write stalled for %s and went on; a minute later writers that had waited for the connection have still not returned", T), nil)
		return
	}
	run1(3)
	run1(4)
	done2 := make(chan struct{})
	go func() { wg.Wait(); close(done2) }()
	select {
	case <-done2:
	case <-time.After(60 * time.Second):
		r.Violation("long-stall:writers-never-return", "writers that started after the stalled socket write had finished did not return within a minute", nil)
		return
	}
	r.Eval()
	r.Count("long_stall_seconds", int(T/time.Second))
	r.Count("long_stall_socket_writes_given_up_at_their_deadline", int(atomic.LoadInt64(&st.timedOut)))
	r.Count("long_stall_writes_that_returned_an_error", len(failed))
	// payloads whose Write reported an error may be absent (the writer was told); they may not be half there
	present := map[[2]int][]byte{}
	raw := sc.Written()
	for k, p := range sent {
		if _, bad := failed[k]; !bad {
			present[k] = p
		}
	}
	res := checkStream(secret, raw, recs, present)
	if res.Sig != "" && len(failed) > 0 {
		// try again with the failed ones expected as well (an error after the payload went out completely is no corruption)
		if res2 := checkStream(secret, raw, recs, sent); res2.Sig == "" {
			res = res2
		}
	}
	if res.Sig != "" {
		if res.Witness == nil {
			res.Witness = map[string]interface{}{}
		}
		res.Witness["stall_seconds"] = int(T / time.Second)
		res.Witness["writes_that_returned_an_error"] = failed
		r.Violation("long-stall:"+res.Sig, fmt.Sprintf("a socket write stalled for %s while two writers waited for the connection, then two more wrote: %s", T, res.What), res.Witness)
		return
	}
	r.Count("long_stall_scenarios_held", 1)
}

// stallConn is the scripted connection with a stall window and write deadlines that are honoured.
type stallConn struct {
	*script.Conn
	begin    func()
	mu       sync.Mutex
	until    time.Time // end of the stall window
	deadline time.Time // write deadline set by the code under test (zero: none)
	timedOut int64
}

type stallTimeout struct{}

func (stallTimeout) Error() string   { return "i/o timeout (write, scripted stall)" }
func (stallTimeout) Timeout() bool   { return true }
func (stallTimeout) Temporary() bool { return true }

func (c *stallConn) SetWriteDeadline(t time.Time) error {
	c.mu.Lock()
	c.deadline = t
	c.mu.Unlock()
	return nil
}

func (c *stallConn) SetDeadline(t time.Time) error { return c.SetWriteDeadline(t) }

func (c *stallConn) Write(p []byte) (int, error) {
	c.begin()
	for {
		c.mu.Lock()
		until, dl := c.until, c.deadline
		c.mu.Unlock()
		now := time.Now()
		if !dl.IsZero() && !now.Before(dl) && now.Before(until) {
			atomic.AddInt64(&c.timedOut, 1)
			return 0, stallTimeout{}
		}
		if !now.Before(until) {
			return c.Conn.Write(p)
		}
		time.Sleep(20 * time.Millisecond)
	}
}

// C08 — concurrent writers never corrupt the encrypted stream.
//
// Harness A: a real hap.Connection (over a loopback TCP pair, or over a scripted connection with a slow
// Write) with the accessory-side session installed; N goroutines issue Write calls with unique-id payloads.
// The peer records the raw byte stream.  Offline oracle (exact, ids are unique): the stream parses as frames,
// frame i authenticates under the accessory->controller key with nonce i, the concatenated plaintext is a
// sequence of complete payloads, each exactly once, and real-time order is respected.
// The same workload runs in a child built with -race; reports with a frame in the write path are violations.
package main

import (
	"bytes"
	gocontext "context"
	"encoding/binary"
	"encoding/json"
	"fmt"
	"hash/crc32"
	"io"
	"io/ioutil"
	"math/rand"
	"net"
	"os"
	"os/exec"
	"path/filepath"
	"regexp"
	"sort"
	"strings"
	"sync"
	"sync/atomic"
	"time"

	"github.com/brutella/hc/crypto"
	"github.com/brutella/hc/hap"
	"github.com/brutella/hc/verifhook"

	"verif/harness/hcx"
	"verif/harness/script"
	"verif/refctl"
	"verif/vf"
)

var m4 = []byte("HTTP/1.1 200 OK\r\nContent-Type: application/pairing+tlv8\r\nContent-Length: 3\r\n\r\n\x06\x01\x04")

type writeRec struct {
	Writer, Seq  int
	Call, Return int64
	Len          int
}

type roundResult struct {
	Sig     string                 `json:"sig,omitempty"`
	What    string                 `json:"what,omitempty"`
	Witness map[string]interface{} `json:"witness,omitempty"`
	// observations
	Overlaps     int    `json:"overlaps"`
	Frames       int    `json:"frames"`
	Payloads     int    `json:"payloads"`
	KeepAlives   int    `json:"keep_alive_messages"`
	ArrivalOrder string `json:"arrival_order"`
	Delays       int64  `json:"delays"`
}

var (
	hookSeed  uint64
	hookCtr   uint64
	hookDelay int64
	hookMode  int32 // 0 none, 1 delays at sealed

	hookReleases int64 // handover rounds whose writers were released from conn.write.written
)

// handoverRelease, when set, is closed by the hook at the first conn.write.written.
var handoverRelease atomic.Pointer[chan struct{}]

func installHook() {
	verifhook.Install(func(point string) {
		if point == "conn.write.written" {
			// handover rounds: the plaintext M4 is on the wire, the encrypter is not yet activated: release the
			// other writers now and give them time to arrive
			if ch := handoverRelease.Swap(nil); ch != nil {
				atomic.AddInt64(&hookReleases, 1)
				close(*ch)
				time.Sleep(2 * time.Millisecond)
			}
			return
		}
		if point != "conn.write.sealed" || atomic.LoadInt32(&hookMode) == 0 {
			return
		}
		n := atomic.AddUint64(&hookCtr, 1)
		h := (n*0x9E3779B97F4A7C15 ^ hookSeed) * 0xBF58476D1CE4E5B9
		h ^= h >> 29
		switch h % 4 {
		case 0:
			atomic.AddInt64(&hookDelay, 1)
			time.Sleep(time.Duration(h>>8%300) * time.Microsecond)
		case 1:
			atomic.AddInt64(&hookDelay, 1)
			for i := 0; i < int(h>>8%8); i++ {
				yield()
			}
		}
	})
}

var largeWrites atomic.Int64
var farRounds atomic.Int64

func payload(writer, seq, bodyLen int, rnd *rand.Rand) []byte {
	b := make([]byte, 10+bodyLen+4)
	binary.BigEndian.PutUint16(b[0:], uint16(writer))
	binary.BigEndian.PutUint32(b[2:], uint32(seq))
	binary.BigEndian.PutUint32(b[6:], uint32(bodyLen))
	rnd.Read(b[10 : 10+bodyLen])
	binary.BigEndian.PutUint32(b[10+bodyLen:], crc32.ChecksumIEEE(b[:10+bodyLen]))
	return b
}

// runRound performs one round and checks the captured stream.
func runRound(seed int64, transport string, writers, writes int, delays bool) roundResult {
	rnd := rand.New(rand.NewSource(seed))
	var secret [32]byte
	rnd.Read(secret[:])
	ctx := hcx.NewContext()
	var hc *hap.Connection
	var rawConn net.Conn
	var captured func() []byte
	var cleanup func()
	switch strings.TrimSuffix(transport, "+handover") {
	case "tcp":
		ln, err := net.Listen("tcp", "127.0.0.1:0")
		if err != nil {
			return roundResult{Sig: "inconclusive", What: err.Error()}
		}
		var peer net.Conn
		done := make(chan struct{})
		var got []byte
		go func() {
			peer, _ = ln.Accept()
			got, _ = ioutil.ReadAll(peer)
			close(done)
		}()
		c, err := net.Dial("tcp", ln.Addr().String())
		if err != nil {
			ln.Close()
			return roundResult{Sig: "inconclusive", What: err.Error()}
		}
		hc, _ = hcx.ServerConn(c, ctx, secret)
		rawConn = c
		captured = func() []byte {
			c.(*net.TCPConn).CloseWrite()
			<-done
			return got
		}
		cleanup = func() { c.Close(); peer.Close(); ln.Close() }
	default:
		sc := script.New(nil)
		sc.KeepReads = false
		if strings.HasPrefix(transport, "slow") {
			sc.MaxWrite = 100 + rnd.Intn(900)
		}
		hc, _ = hcx.ServerConn(sc, ctx, secret)
		rawConn = sc
		captured = sc.Written
		cleanup = func() {}
	}
	defer cleanup()
	// as after pair-verify: M4 goes out in plaintext, then the connection reads
	handover := strings.HasSuffix(transport, "+handover")
	if !handover {
		hc.Write(m4)
		hc.SetReadDeadline(time.Now().Add(time.Millisecond))
		hc.Read(make([]byte, 16))
		hc.SetReadDeadline(time.Time{})
	}

	// every fifth round (without a handover of its own) the session has already sealed almost 2^32 (or 2^40, 2^48) frames:
	// a counter boundary falls among the first frames, possibly inside one multi-frame message
	var farStart uint64
	if !handover && seed%5 == 2 {
		farStart = uint64(1)<<[]uint{32, 32, 40, 48}[seed/5%4] - uint64(2+seed%37)
		enc := ctx.GetSessionForConnection(rawConn).Encrypter()
		c, ok := enc.(crypto.Cryptographer)
		if !ok || !crypto.VerifSetFrameCounters(c, farStart, 0) {
			return roundResult{Sig: "inconclusive", What: "the frame counter hook does not apply to the connection's encrypter"}
		}
		farRounds.Add(1)
	}
	if delays {
		atomic.StoreInt32(&hookMode, 1)
	} else {
		atomic.StoreInt32(&hookMode, 0)
	}
	d0 := atomic.LoadInt64(&hookDelay)
	var clock int64
	recs := make([][]writeRec, writers)
	sent := map[[2]int][]byte{}
	var smu sync.Mutex
	var wg sync.WaitGroup
	start := make(chan struct{})
	for w := 0; w < writers; w++ {
		wg.Add(1)
		wr := rand.New(rand.NewSource(seed*131 + int64(w)))
		go func(w int) {
			defer wg.Done()
			<-start
			for s := 0; s < writes; s++ {
				n := 1 + wr.Intn(900)
				switch wr.Intn(6) {
				case 0:
					n = 1024 - 14 // exactly one full frame
				case 1:
					n = 1025 + wr.Intn(2000) // two or three frames
				case 2:
					if s%8 == 3 { // now and then a large response: 10..70 frames, beyond 64 KiB
						n = 10000 + wr.Intn(62000)
						largeWrites.Add(1)
					}
				}
				p := payload(w, s, n, wr)
				smu.Lock()
				sent[[2]int{w, s}] = p
				smu.Unlock()
				rec := writeRec{Writer: w, Seq: s, Len: len(p)}
				rec.Call = atomic.AddInt64(&clock, 1)
				arg := append([]byte{}, p...) // the writer's own buffer, reused as soon as Write has returned
				nw, err := hc.Write(arg)
				for k := range arg {
					arg[k] = 0xEE
				}
				rec.Return = atomic.AddInt64(&clock, 1)
				_ = nw
				_ = err
				recs[w] = append(recs[w], rec)
			}
		}(w)
	}
	var stopKeepAlive func()
	if !handover {
		// a keep-alive runs on the same connection (its own goroutine, its own way into the connection): empty EVENT
		// messages between the payloads
		kctx, cancel := gocontext.WithCancel(gocontext.Background())
		kdone := make(chan struct{})
		go func() {
			defer close(kdone)
			hap.NewKeepAlive(time.Duration(100+rnd.Intn(400))*time.Microsecond, ctx).Start(kctx)
		}()
		stopKeepAlive = func() { cancel(); <-kdone }
	}
	if handover {
		// the writers are released while the M4 write is between its socket write and the activation of the
		// encrypter; whatever they write must still come out encrypted, after M4
		handoverRelease.Store(&start)
		hc.Write(m4)
		if ch := handoverRelease.Swap(nil); ch != nil {
			close(*ch) // the hook point was not reached (it must be, with the verif tag): release anyway
		}
	} else {
		close(start)
	}
	wg.Wait()
	if stopKeepAlive != nil {
		stopKeepAlive()
	}
	atomic.StoreInt32(&hookMode, 0)
	raw := captured()
	res := checkStream(secret, raw, recs, sent, farStart)
	if farStart != 0 && res.Witness != nil {
		res.Witness["frame_counter_of_the_first_frame"] = fmt.Sprint(farStart)
	}
	res.Delays = atomic.LoadInt64(&hookDelay) - d0
	if res.Witness != nil {
		res.Witness["transport"] = transport
		res.Witness["writers"] = writers
		res.Witness["writes_per_writer"] = writes
		res.Witness["delays_at_sealed"] = delays
		res.Witness["round_seed"] = seed
	}
	return res
}

// keepAliveMsg is what hap.KeepAlive writes: an EVENT message without content
var keepAliveMsg = func() []byte {
	var b bytes.Buffer
	hap.NewNotification(new(bytes.Buffer)).Write(&b)
	return hap.FixProtocolSpecifier(b.Bytes())
}()

func checkStream(secret [32]byte, raw []byte, recs [][]writeRec, sent map[[2]int][]byte, startCount ...uint64) roundResult {
	var res roundResult
	var start uint64 // the counter of the first encrypted frame (0 unless the round placed the session elsewhere)
	if len(startCount) > 0 {
		start = startCount[0]
	}
	fail := func(sig, what string, w map[string]interface{}) roundResult {
		res.Sig, res.What, res.Witness = sig, what, w
		if res.Witness == nil {
			res.Witness = map[string]interface{}{}
		}
		return res
	}
	// overlapping write intervals
	var all []writeRec
	for _, rs := range recs {
		all = append(all, rs...)
	}
	sort.Slice(all, func(i, j int) bool { return all[i].Call < all[j].Call })
	for i := range all {
		for j := i + 1; j < len(all) && all[j].Call < all[i].Return; j++ {
			res.Overlaps++
		}
	}
	if !bytes.HasPrefix(raw, m4) {
		// the first write may legitimately be encrypted by a tree that promotes early; that is C07's business.
		// Try to interpret the whole stream as frames.
	} else {
		raw = raw[len(m4):]
	}
	_, a2c := refctl.SessionKeys(secret[:])
	frames, err := refctl.SplitFrames(raw)
	if err != nil {
		return fail("stream:does-not-parse-as-frames", fmt.Sprintf("captured stream of %d bytes does not parse as frames after %d frames", len(raw), len(frames)), nil)
	}
	res.Frames = len(frames)
	var plain []byte
	fr := &refctl.Framer{Key: a2c, Count: start}
	for i, f := range frames {
		p, _, err := fr.OpenFrame(f)
		if err != nil {
			// diagnose: which nonce opens it?
			at := -1
			for c := 0; c < len(frames)+4; c++ {
				t := &refctl.Framer{Key: a2c, Count: start + uint64(c)}
				if _, _, e := t.OpenFrame(f); e == nil {
					at = c
					break
				}
			}
			w := map[string]interface{}{"frame_index": i, "frames_total": len(frames), "opens_with_nonce": at}
			switch {
			case at < 0:
				return fail("stream:frame-garbled", fmt.Sprintf("frame %d of the captured stream authenticates under no counter value", i), w)
			case at < i:
				return fail("stream:counter-reused", fmt.Sprintf("frame at position %d was sealed with counter %d, which was already used", i, at), w)
			default:
				return fail("stream:counter-out-of-order", fmt.Sprintf("frame at position %d was sealed with counter %d: the peer cannot decrypt frames in arrival order", i, at), w)
			}
		}
		plain = append(plain, p...)
	}
	if bytes.HasPrefix(plain, m4) {
		plain = plain[len(m4):]
	}
	// parse payload records
	pos := map[[2]int]int{}
	var order []string
	off := 0
	idx := 0
	for off < len(plain) {
		if bytes.HasPrefix(plain[off:], keepAliveMsg) {
			res.KeepAlives++
			off += len(keepAliveMsg)
			continue
		}
		if len(plain)-off < 14 {
			return fail("stream:payload-interleaved", "trailing bytes do not form a payload header", map[string]interface{}{"offset": off})
		}
		w := int(binary.BigEndian.Uint16(plain[off:]))
		s := int(binary.BigEndian.Uint32(plain[off+2:]))
		n := int(binary.BigEndian.Uint32(plain[off+6:]))
		want, ok := sent[[2]int{w, s}]
		if !ok || n != len(want)-14 || len(plain)-off < len(want) || !bytes.Equal(plain[off:off+len(want)], want) {
			return fail("stream:payload-interleaved", fmt.Sprintf("at plaintext offset %d the stream does not continue with one complete payload (header says writer %d seq %d len %d)", off, w, s, n),
				map[string]interface{}{"offset": off, "payload_index": idx})
		}
		if _, dup := pos[[2]int{w, s}]; dup {
			return fail("stream:payload-duplicated", fmt.Sprintf("payload writer %d seq %d appears twice", w, s), nil)
		}
		pos[[2]int{w, s}] = idx
		order = append(order, fmt.Sprint(w))
		idx++
		off += len(want)
	}
	res.Payloads = idx
	if idx != len(sent) {
		return fail("stream:payload-missing", fmt.Sprintf("%d payloads written, %d arrived", len(sent), idx), nil)
	}
	// real-time order
	for i := range all {
		for j := range all {
			if all[i].Return < all[j].Call {
				if pos[[2]int{all[i].Writer, all[i].Seq}] > pos[[2]int{all[j].Writer, all[j].Seq}] {
					return fail("stream:order-vs-realtime", fmt.Sprintf("write (%d,%d) returned before write (%d,%d) was called but arrives after it", all[i].Writer, all[i].Seq, all[j].Writer, all[j].Seq), nil)
				}
			}
		}
	}
	res.ArrivalOrder = strings.Join(order, "")
	return res
}

type plan struct {
	transport string
	writers   int
	writes    int
	delays    bool
}

func plans(rnd *rand.Rand, n int) []plan {
	var out []plan
	tr := []string{"tcp", "script", "slow"}
	for i := 0; i < n; i++ {
		w := 2 + rnd.Intn(15)
		if i%4 == 0 {
			w = 8
		}
		t := tr[i%3]
		if i%5 == 4 {
			t += "+handover"
		}
		out = append(out, plan{t, w, 5 + rnd.Intn(20), i%2 == 0})
	}
	return out
}

func main() {
	if len(os.Args) > 1 && os.Args[1] == "-race-child" {
		raceChild()
		return
	}
	r := vf.Start("C08", "exploration")
	r.SetRule("a round = (transport tcp|scripted|slow socket, 2..16 writer goroutines, 5..24 writes each of 1..3 frames, natural scheduling or PRNG delays between sealing and " +
		"the socket write); the captured stream is checked offline; non-trivial = a round with overlapping Write calls; distinct = distinct arrival orders of writer ids. " +
		"The same workload runs under the race detector; reports are filtered to the write path. Harness B: a real transport with 4 subscribed controllers issuing GETs while application goroutines change the subscribed values")
	r.Assume("refctl framing follows the specification; one net.Conn.Write call is contiguous on the wire (Go's fd write lock)")
	installHook()
	hookSeed = uint64(r.Seed) * 0x9E3779B97F4A7C15
	rnd := r.Rand("c08")
	rounds := r.Pick(200, 5000)
	for i, p := range plans(rnd, rounds) {
		res := runRound(r.Seed*100003+int64(i), p.transport, p.writers, p.writes, p.delays)
		record(r, res, p, "plain")
	}
	// neighbouring connections: three connections of one process (slow and scripted sockets, so that socket writes are
	// in flight for a while) are written to at the same time; each stream is judged on its own, as above.  What the write
	// path shares between connections (pooled buffers, package-level scratch space) must not show in any of them.
	groups := r.Pick(40, 600)
	for g := 0; g < groups; g++ {
		var wg sync.WaitGroup
		res := make([]roundResult, 3)
		ps := []plan{{transport: "slow", writers: 2 + g%3, writes: 6, delays: g%2 == 0}, {transport: "script", writers: 3, writes: 8, delays: true}, {transport: "slow", writers: 2, writes: 5 + g%4, delays: false}}
		for k := range ps {
			wg.Add(1)
			go func(k int) {
				defer wg.Done()
				res[k] = runRound(r.Seed*700001+int64(g*3+k), ps[k].transport, ps[k].writers, ps[k].writes, ps[k].delays)
			}(k)
		}
		wg.Wait()
		for k := range ps {
			if res[k].Sig != "" && res[k].Sig != "inconclusive" {
				res[k].Sig = "neighbours:" + res[k].Sig
				res[k].What = "(three connections written to at the same time) " + res[k].What
			}
			record(r, res[k], ps[k], "plain")
			r.Count("rounds_with_neighbouring_connections", 1)
		}
	}
	// one socket write that does not return for 12 / 70 s of real time (longstall.go)
	longStall(r)
	r.Floor("long_stall_scenarios_held+violations", int(r.Counter("long_stall_scenarios_held"))+r.ViolationCount(), 1)
	// harness B: real transport, responses and notifications meeting on every connection
	fullStack(r, "plain", r.Pick(2, 12))
	// race detector child (harness A and B)
	runRace(r)
	// a tree that has lost a hook point must not pass as "held"
	r.Count("delays_taken_at_conn.write.sealed", int(atomic.LoadInt64(&hookDelay)))
	r.Count("writers_released_at_conn.write.written", int(atomic.LoadInt64(&hookReleases)))
	r.Floor("delays taken at hook point conn.write.sealed", int(atomic.LoadInt64(&hookDelay)), rounds)
	r.Floor("handover rounds released at hook point conn.write.written", int(atomic.LoadInt64(&hookReleases)), rounds/40)
	r.Count("writes_of_10_to_70_frames", int(largeWrites.Load()))
	r.Floor("writes_of_10_to_70_frames", int(largeWrites.Load()), 20)
	r.Count("rounds_that_start_just_below_a_counter_boundary", int(farRounds.Load()))
	r.Floor("rounds_that_start_just_below_a_counter_boundary", int(farRounds.Load()), 10)
	r.Floor("keep_alive_messages_between_payloads", int(r.Counter("keep_alive_messages_between_payloads")), rounds)
	r.Floor("rounds_with_neighbouring_connections", int(r.Counter("rounds_with_neighbouring_connections")), groups*3)
	r.Floor("rounds_with_overlapping_writes", int(r.Counter("rounds_with_overlapping_writes")), rounds/2)
	r.Floor("overlapping_write_pairs", int(r.Counter("overlapping_write_pairs")), 2000)
	r.Floor("distinct arrival orders", r.DistinctN("arrival_order"), rounds/4)
	r.Floor("fullstack_events_between_request_and_response", int(r.Counter("fullstack_events_between_request_and_response")), 100)
	r.Floor("fullstack_frames_decrypted_in_order", int(r.Counter("fullstack_frames_decrypted_in_order")), 2000)
	r.Finish()
}

func record(r *vf.Run, res roundResult, p plan, build string) {
	r.Eval()
	r.Count("rounds_"+build, 1)
	if res.Sig == "inconclusive" {
		r.Inconclusive(res.What)
		return
	}
	r.Count("overlapping_write_pairs", res.Overlaps)
	r.Count("frames_checked", res.Frames)
	r.Count("payloads_checked", res.Payloads)
	r.Count("keep_alive_messages_between_payloads", res.KeepAlives)
	r.Count("delays_taken_at_sealed", int(res.Delays))
	if res.Overlaps > 0 {
		r.Count("rounds_with_overlapping_writes", 1)
		r.Nontrivial(fmt.Sprint(p, res.ArrivalOrder))
	}
	r.Distinct("transport", p.transport)
	if res.ArrivalOrder != "" {
		r.Distinct("arrival_order", res.ArrivalOrder)
	}
	if res.Sig != "" {
		r.Violation(res.Sig, res.What, res.Witness)
	}
	if r.Counter("rounds_plain")%50 == 1 {
		ao := res.ArrivalOrder
		if len(ao) > 80 {
			ao = ao[:80] + "..."
		}
		r.Sample(map[string]interface{}{"transport": p.transport, "writers": p.writers, "writes_each": p.writes, "delays": p.delays,
			"overlapping_pairs": res.Overlaps, "frames": res.Frames, "arrival_order_of_writer_ids": ao})
	}
}

// ---------------------------------------------------------------- race detector child

type childOut struct {
	Plans   []plan        `json:"-"`
	FS      []fsResult    `json:"fullstack"`
	Results []roundResult `json:"results"`
	P       []struct {
		Transport string
		Writers   int
		Writes    int
		Delays    bool
	} `json:"plans"`
}

func raceChild() {
	// args: -race-child <seed> <rounds> <outfile>
	var seed int64
	var rounds int
	fmt.Sscan(os.Args[2], &seed)
	fmt.Sscan(os.Args[3], &rounds)
	installHook()
	hookSeed = uint64(seed) * 0x9E3779B97F4A7C15
	rnd := rand.New(rand.NewSource(seed))
	var out childOut
	for i, p := range plans(rnd, rounds) {
		if p.writers > 8 {
			p.writers = 8
		}
		res := runRound(seed*100003+int64(i), p.transport, p.writers, p.writes, p.delays)
		out.Results = append(out.Results, res)
		out.P = append(out.P, struct {
			Transport string
			Writers   int
			Writes    int
			Delays    bool
		}{p.transport, p.writers, p.writes, p.delays})
	}
	for i := 0; i < 1+rounds/200; i++ {
		out.FS = append(out.FS, fullStackRound(seed*977+int64(i), 4, 300, 200, filepath.Dir(os.Args[4])))
	}
	b, _ := json.Marshal(out)
	ioutil.WriteFile(os.Args[4], b, 0o644)
}

var reFrame = regexp.MustCompile(`^\s+((?:github\.com/brutella/hc/|main\.)\S*?)\(\)\s*$`)

func runRace(r *vf.Run) {
	bin := os.Getenv("VERIF_RACE_BIN")
	if bin == "" {
		r.Inconclusive("VERIF_RACE_BIN not set (race build missing)")
		return
	}
	dir := r.WorkDir()
	old, _ := filepath.Glob(filepath.Join(dir, "race.log.*"))
	for _, f := range old {
		os.Remove(f)
	}
	out := filepath.Join(dir, "race-child.json")
	os.Remove(out)
	rounds := r.Pick(60, 600)
	cmd := exec.Command("timeout", "-s", "QUIT", "1200", bin, "-race-child", fmt.Sprint(r.Seed), fmt.Sprint(rounds), out)
	cmd.Env = append(os.Environ(), "GORACE=halt_on_error=0 log_path="+filepath.Join(dir, "race.log"))
	lf, _ := os.Create(filepath.Join(dir, "race-child.out"))
	cmd.Stdout, cmd.Stderr = lf, lf
	err := cmd.Run()
	lf.Close()
	b, rerr := ioutil.ReadFile(out)
	if rerr != nil {
		r.Inconclusive(fmt.Sprintf("race child produced no result (%v, %v); see %s", err, rerr, filepath.Join(dir, "race-child.out")))
		return
	}
	var co childOut
	if json.Unmarshal(b, &co) != nil {
		r.Inconclusive("race child result unreadable")
		return
	}
	for i, res := range co.Results {
		p := plan{co.P[i].Transport, co.P[i].Writers, co.P[i].Writes, co.P[i].Delays}
		record(r, res, p, "race")
	}
	for _, fr := range co.FS {
		r.Eval()
		r.Count("fullstack_rounds_race", 1)
		if fr.Sig == "inconclusive" {
			r.Inconclusive("harness B (race build): " + fr.What)
			continue
		}
		r.Count("fullstack_responses", int(fr.Responses))
		r.Count("fullstack_events", int(fr.Events))
		r.Count("fullstack_frames_decrypted_in_order", int(fr.Frames))
		r.Count("fullstack_events_between_request_and_response", int(fr.EventsWhilePending))
		if fr.Sig != "" {
			r.Violation(fr.Sig, fr.What, fr.Witness)
		}
	}
	// race reports
	logs, _ := filepath.Glob(filepath.Join(dir, "race.log.*"))
	other := map[string]int{}
	for _, lf := range logs {
		data, _ := ioutil.ReadFile(lf)
		for _, block := range strings.Split(string(data), "==================") {
			if !strings.Contains(block, "WARNING: DATA RACE") {
				continue
			}
			r.Count("race_reports_total", 1)
			// split into stacks; take the top hc/verif frame of the first two stacks
			var tops []string
			inWritePath := false
			for si, st := range strings.Split(block, "\n\n") {
				if si >= 2 {
					break // only the two access stacks, not the goroutine creation stacks
				}
				top := ""
				for _, line := range strings.Split(st, "\n") {
					if m := reFrame.FindStringSubmatch(line); m != nil {
						fn := m[1]
						if top == "" && strings.HasPrefix(fn, "github.com/brutella/hc/") {
							top = fn
						}
						if strings.Contains(fn, "hap.(*Connection).Write") || strings.Contains(fn, "hap.(*Connection).EncryptedWrite") ||
							strings.Contains(fn, "crypto.(*secureSession).Encrypt") {
							inWritePath = true
						}
					}
				}
				if top != "" && len(tops) < 2 {
					tops = append(tops, top)
				}
			}
			sort.Strings(tops)
			key := strings.Join(tops, " vs ")
			if inWritePath {
				r.Violation("race:"+short(key), "the race detector reports a data race in the write path: "+key,
					map[string]interface{}{"report": trim(block, 3000), "log": lf})
			} else {
				other[key]++
			}
		}
	}
	if len(other) > 0 {
		r.Extra("other_races_observed", other)
	}
	r.Count("race_child_rounds", len(co.Results))
	r.Floor("race_child_rounds", len(co.Results), rounds)
}

func short(s string) string {
	s = strings.ReplaceAll(s, "github.com/brutella/hc/", "")
	return strings.ReplaceAll(s, " ", "")
}

func trim(s string, n int) string {
	if len(s) > n {
		return s[:n] + "..."
	}
	return s
}

var _ = io.EOF

// C04 — a specification-conformant controller can pair, verify and talk.
//
// Full stack: a real hc IP transport per configuration; the independent controller refctl performs
// pair-setup (verifying the server proof, M6 decryption and accessory signature), pair-verify (verifying
// M2) and then exchanges encrypted requests.  A wrong setup code must be answered with State=4, Error=2,
// no proof, and nothing stored.
package main

import (
	"bytes"
	"crypto/ed25519"
	"encoding/json"
	"fmt"
	"math/rand"
	"os"
	"strings"
	"sync"
	"sync/atomic"
	"time"

	"github.com/brutella/hc/accessory"
	"github.com/brutella/hc/characteristic"
	"github.com/brutella/hc/service"
	"github.com/brutella/hc/verifhook"

	"verif/harness/app"
	"verif/refctl"
	"verif/vf"
)

type config struct {
	Pin       string `json:"setup_code"`
	CtrlID    string `json:"controller_id"`
	AccName   string `json:"accessory_name"`
	NAcc      int    `json:"accessories"`
	PreStored int    `json:"pairings_already_stored"`
	Split     string `json:"frame_split_policy"`
	BigPut    int    `json:"put_value_bytes"`
	TLVStyle  string `json:"controller_tlv_style,omitempty"` // item order / unknown items as another conformant controller may send them
	AccID     string `json:"stored_accessory_id,omitempty"`  // a uuid file already in the storage (e.g. written by an older version / another tool)
	seed      int64
}

var invalidPins = map[string]bool{"12345678": true, "87654321": true, "00000000": true, "11111111": true, "22222222": true, "33333333": true,
	"44444444": true, "55555555": true, "66666666": true, "77777777": true, "88888888": true, "99999999": true}

func randomPin(rnd *rand.Rand) string {
	for {
		p := fmt.Sprintf("%08d", rnd.Intn(100000000))
		if !invalidPins[p] {
			return p
		}
	}
}

func randomID(rnd *rand.Rand) string {
	switch rnd.Intn(5) {
	case 0: // UUID like iOS
		b := make([]byte, 16)
		rnd.Read(b)
		return strings.ToUpper(fmt.Sprintf("%x-%x-%x-%x-%x", b[0:4], b[4:6], b[6:8], b[8:10], b[10:16]))
	case 1:
		return string(rune('a' + rnd.Intn(26)))
	case 2: // 64 bytes
		b := make([]byte, 64)
		for i := range b {
			b[i] = byte('A' + rnd.Intn(26))
		}
		return string(b)
	case 3: // non-BMP and multi-byte runes, <= 64 bytes
		rs := []rune("ctl-\U0001F3E0-é-日本-")
		s := string(rs) + fmt.Sprint(rnd.Intn(1000))
		return s
	default:
		n := 1 + rnd.Intn(40)
		b := make([]byte, n)
		const al = "abcdefghijklmnopqrstuvwxyzABCDEFGHIJKLMNOPQRSTUVWXYZ0123456789 :-_./@"
		for i := range b {
			b[i] = al[rnd.Intn(len(al))]
		}
		return string(b)
	}
}

var run *vf.Run
var base string

func fail(c config, stage, what string, extra map[string]interface{}) {
	w := map[string]interface{}{"config": c}
	for k, v := range extra {
		w[k] = v
	}
	run.Violation(stage, what, w)
}

// handshakeSig maps a stage error to a signature; transport timeouts are confirmed by the caller.
func stageSig(err error) string {
	if se, ok := err.(*refctl.StageError); ok {
		return se.Stage
	}
	return "transport"
}

func runConfig(c config) {
	rnd := rand.New(rand.NewSource(c.seed))
	dir := app.ScratchDir(base, "store")
	defer os.RemoveAll(dir)
	// pre-populate storage with other pairings
	var others []*refctl.Identity
	for i := 0; i < c.PreStored; i++ {
		o := refctl.NewIdentity(fmt.Sprintf("other-%d-%d", i, rnd.Intn(1e6)), rnd)
		others = append(others, o)
		app.StoreController(dir, o)
	}
	if c.AccID != "" {
		os.MkdirAll(dir, 0o755)
		os.WriteFile(dir+"/uuid", []byte(c.AccID), 0o666)
	}
	// accessory set with a writable string characteristic for large PUT bodies
	first := accessory.NewSwitch(accessory.Info{Name: c.AccName})
	note := characteristic.NewString("F0000001-0000-1000-8000-0026BB765291")
	note.Perms = characteristic.PermsAll()
	note.SetValue("")
	sv := service.New("F0000000-0000-1000-8000-0026BB765291")
	sv.AddCharacteristic(note.Characteristic)
	first.AddService(sv)
	var rest []*accessory.Accessory
	for i := 1; i < c.NAcc; i++ {
		rest = append(rest, accessory.NewColoredLightbulb(accessory.Info{Name: fmt.Sprintf("Bulb %d", i), SerialNumber: fmt.Sprint(rnd.Int63())}).Accessory)
	}
	a, err := app.Start(dir, c.Pin, first.Accessory, rest...)
	if err != nil {
		if c.PreStored > 0 {
			// with stored pairings the accessory is not discoverable but must still start
		}
		run.Inconclusive(fmt.Sprintf("transport did not start: %v", err))
		return
	}
	defer a.Stop()
	run.Count("transports_started", 1)
	before := app.Snapshot(dir)

	// --- wrong setup code first (nothing may be stored).  In every second configuration "the same controller" goes on
	// with the right code on the SAME connection (somebody mistyped the code), otherwise on a new one.
	var retryConn *refctl.Conn
	sameConn := c.PreStored == 0 && rnd.Intn(2) == 0
	if c.PreStored == 0 {
		bad := refctl.NewIdentity("intruder-"+c.CtrlID, rnd)
		wrong := randomPin(rnd)
		for wrong == c.Pin {
			wrong = randomPin(rnd)
		}
		cn, err := refctl.Dial(a.Addr)
		if err != nil {
			run.Inconclusive("dial: " + err.Error())
			return
		}
		cn.Timeout = 10 * time.Second
		s, err := cn.StartSetup(bad, app.FormatCode(wrong), rnd)
		if err != nil {
			fail(c, "wrong-code:"+stageSig(err), "pair-setup M1/M2 failed: "+err.Error(), nil)
			cn.Close()
			return
		}
		err = cn.SetupVerify(s)
		if err == nil {
			fail(c, "wrong-code:accepted", "the accessory accepted the SRP proof of a wrong setup code", map[string]interface{}{"wrong_code": wrong})
		} else if stageSig(err) != refctl.StageAuthRefused {
			fail(c, "wrong-code:"+stageSig(err), "wrong setup code was not answered with State=4 Error=2 and no proof: "+err.Error(), map[string]interface{}{"wrong_code": wrong})
		} else {
			run.Count("wrong_code_refused", 1)
		}
		if sameConn {
			retryConn = cn
		} else {
			cn.Close()
		}
		if d := app.DiffSnapshots(before, app.Snapshot(dir)); len(d) > 0 {
			fail(c, "wrong-code:storage-changed", fmt.Sprintf("storage changed after a failed pair-setup: %v", d), nil)
		}
	}

	// --- pair-setup
	me := refctl.NewIdentity(c.CtrlID, rnd)
	cn, err := refctl.Dial(a.Addr)
	if err != nil {
		run.Inconclusive("dial: " + err.Error())
		return
	}
	cn.Timeout = 10 * time.Second
	cn.TLVStyle, cn.StyleRand = c.TLVStyle, rnd
	var s *refctl.Setup
	if retryConn != nil {
		// on the connection of the refused attempt; the accessory may refuse one start request there (C13 states that
		// allowance), the second complete attempt must succeed
		cn.Close()
		cn = retryConn
		cn.TLVStyle, cn.StyleRand = c.TLVStyle, rnd
		s, err = cn.PairSetup(me, a.Code(), rnd)
		if err != nil && strings.HasPrefix(stageSig(err), "setup.M2") {
			run.Count("right_code_after_wrong_code_on_the_same_connection_start_refused_once", 1)
			s, err = cn.PairSetup(me, a.Code(), rnd)
		}
		cn.Close()
		if err != nil {
			fail(c, "setup-after-wrong-code-on-the-same-connection:"+stageSig(err), "after a wrong setup code was refused, pair-setup with the right code on the same connection failed: "+err.Error(), nil)
			return
		}
		run.Count("right_code_after_wrong_code_on_the_same_connection", 1)
	} else {
		s, err = cn.PairSetup(me, a.Code(), rnd)
		cn.Close()
		if err != nil {
			fail(c, "setup:"+stageSig(err), "pair-setup with the right code failed: "+err.Error(), nil)
			return
		}
	}
	run.Count("pair_setups_verified", 1)
	if len(s.M6StateBytes) > 1 {
		run.Count("m6_with_repeated_state_item", 1)
	}
	// stored entity is exactly (id, ltpk)
	ctrls, err := app.Controllers(dir)
	if err != nil {
		fail(c, "setup:stored-entity-unreadable", "entity files unreadable after pair-setup: "+err.Error(), nil)
		return
	}
	found := false
	for _, e := range ctrls {
		if e.Name == me.ID {
			found = true
			if !bytes.Equal(e.PublicKey, me.LTPK) {
				fail(c, "setup:stored-key-differs", "the stored public key is not the controller's LTPK", nil)
			}
		}
	}
	if !found {
		fail(c, "setup:controller-not-stored", fmt.Sprintf("no entity named %q stored after a successful pair-setup (%d controller entities)", me.ID, len(ctrls)), nil)
		return
	}
	if len(ctrls) != 1+len(others) {
		fail(c, "setup:unexpected-entities", fmt.Sprintf("%d controller entities stored, expected %d", len(ctrls), 1+len(others)), nil)
	}
	txt := a.TXT()
	if c.AccID != "" && txt["id"] != c.AccID {
		fail(c, "setup:stored-accessory-id-not-used", fmt.Sprintf("the storage holds accessory id %q, the accessory advertises %q", c.AccID, txt["id"]), nil)
	}
	run.Distinct("accessory_id_shape", idShape(txt["id"]))
	if s.AccessoryID != txt["id"] {
		fail(c, "setup:M6-identifier-differs-from-advertised-id", fmt.Sprintf("M6 identifier %q, advertised id %q", s.AccessoryID, txt["id"]), nil)
	}
	if ae, ok := app.AccessoryEntity(dir); !ok || !bytes.Equal(ae.PublicKey, s.AccessoryLTPK) {
		fail(c, "setup:M6-ltpk-differs-from-stored", "the LTPK in M6 is not the accessory's stored public key", nil)
	}
	if txt["sf"] != "0" {
		fail(c, "setup:still-discoverable", fmt.Sprintf("sf=%s after pairing", txt["sf"]), nil)
	}

	// --- pair-verify + encrypted talk
	vc, err := refctl.Dial(a.Addr)
	if err != nil {
		run.Inconclusive("dial: " + err.Error())
		return
	}
	defer vc.Close()
	vc.Timeout = 10 * time.Second
	vc.TLVStyle, vc.StyleRand = c.TLVStyle, rnd
	if _, err := vc.PairVerify(me, s.AccessoryLTPK, s.AccessoryID, rnd); err != nil {
		fail(c, "verify:"+stageSig(err), "pair-verify failed: "+err.Error(), nil)
		return
	}
	run.Count("pair_verifies_verified", 1)
	switch c.Split {
	case "arbitrary":
		vc.SplitSizes = func(n int) []int {
			var out []int
			for i := 0; i < 64; i++ {
				out = append(out, 1+rnd.Intn(1024))
			}
			return out
		}
	case "small":
		vc.SplitSizes = func(n int) []int {
			var out []int
			for i := 0; i < 400; i++ {
				out = append(out, 1+rnd.Intn(64))
			}
			return out
		}
	}
	do := func(stage, method, target string, body []byte) *refctl.Message {
		m, err := vc.Do(method, target, refctl.ContentJSON, body)
		if err == refctl.ErrTimeout {
			un, late, perr := app.ConfirmUnanswered(vc, 50, func() error {
				p, err := a.Verified(me, s.AccessoryLTPK, s.AccessoryID)
				if err != nil {
					return err
				}
				defer p.Close()
				_, err = p.Do("GET", "/characteristics?id=1.3", "", nil)
				return err
			})
			switch {
			case perr != nil:
				run.Inconclusive("bounded-progress probe failed: " + perr.Error())
			case un:
				fail(c, "talk:"+stage+":unanswered", fmt.Sprintf("%s %s (%d body bytes) was not answered while 50 round trips on other connections completed", method, trunc(target, 40), len(body)), nil)
			default:
				return late
			}
			return nil
		}
		if err != nil {
			fail(c, "talk:"+stage+":"+errClass(err), fmt.Sprintf("%s %s: %v", method, trunc(target, 40), err), nil)
			return nil
		}
		return m
	}
	m := do("accessories", "GET", "/accessories", nil)
	if m == nil {
		return
	}
	if m.Status != 200 {
		fail(c, "talk:accessories:status", fmt.Sprintf("GET /accessories answered %d", m.Status), nil)
		return
	}
	db, err := refctl.ParseAttrDB(m.Body)
	if err != nil || len(db.Accessories) != c.NAcc {
		fail(c, "talk:accessories:body", fmt.Sprintf("GET /accessories does not parse or lists %d accessories instead of %d: %v", len(db.Accessories), c.NAcc, err), nil)
		return
	}
	run.Count("accessories_bytes", len(m.Body))
	run.Distinct("accessories_size_class", fmt.Sprintf("%dKB", len(m.Body)/1024))
	aid, on := db.Find(1, "25")
	_, nt := db.Find(1, "F0000001-0000-1000-8000-0026BB765291")
	if on == nil || nt == nil {
		fail(c, "talk:accessories:missing-characteristic", "the switch's On or the custom string characteristic is not listed", nil)
		return
	}
	// write On = true, read it back
	m = do("put-on", "PUT", "/characteristics", refctl.PutBody(refctl.CharValue{AID: aid, IID: on.IID, Value: refctl.RawJSON(true)}))
	if m == nil {
		return
	}
	if m.Status != 204 {
		fail(c, "talk:put-on:status", fmt.Sprintf("PUT answered %d", m.Status), nil)
		return
	}
	if !first.Switch.On.GetValue() {
		fail(c, "talk:put-on:not-applied", "the application does not see the written value", nil)
	}
	// large PUT
	val := make([]byte, c.BigPut)
	for i := range val {
		val[i] = byte('a' + rnd.Intn(26))
	}
	m = do("put-big", "PUT", "/characteristics", refctl.PutBody(refctl.CharValue{AID: aid, IID: nt.IID, Value: refctl.RawJSON(string(val))}))
	if m == nil {
		return
	}
	if m.Status != 204 {
		fail(c, "talk:put-big:status", fmt.Sprintf("PUT of %d bytes answered %d", c.BigPut, m.Status), nil)
		return
	}
	run.Distinct("request_size_class", fmt.Sprintf("%d frames", (c.BigPut+200)/1024+1))
	if got := note.GetValue(); got != string(val) {
		fail(c, "talk:put-big:not-applied", fmt.Sprintf("the application sees %d bytes, %d were written", len(got), len(val)), nil)
	}
	m = do("get", "GET", "/characteristics?id="+refctl.IDList([2]uint64{aid, on.IID}, [2]uint64{aid, nt.IID}), nil)
	if m == nil {
		return
	}
	var cl refctl.CharList
	if m.Status != 200 || json.Unmarshal(m.Body, &cl) != nil || len(cl.Characteristics) != 2 {
		fail(c, "talk:get:status-or-body", fmt.Sprintf("GET /characteristics answered %d with %d entries", m.Status, len(cl.Characteristics)), nil)
		return
	}
	if cl.Characteristics[0].Value == nil || string(*cl.Characteristics[0].Value) != "true" {
		fail(c, "talk:get:value", "On does not read back as true", nil)
	}
	var back string
	if cl.Characteristics[1].Value == nil || json.Unmarshal(*cl.Characteristics[1].Value, &back) != nil || back != string(val) {
		fail(c, "talk:get:value", fmt.Sprintf("the %d byte string does not read back", len(val)), nil)
	}
	run.Count("frames_exchanged", vc.FramesIn+vc.FramesOut)
	run.Count("bytes_exchanged", vc.BytesIn+vc.BytesOut)
	run.Count("configurations_completed", 1)

	// --- every fourth configuration: two more controllers pair AT THE SAME TIME on two connections (the owner's phone
	// and tablet): their M3 and M5 requests leave together; each is a conformant controller that knows the code
	if c.seed%4 == 1 {
		if !twoAtOnce(c, a, rnd) {
			return
		}
	}

	// --- every third configuration: the controller was reset and pairs again under the SAME identifier with a NEW
	// key pair (the accessory has used the old pairing in this process); the exchange must work for this identity too
	if c.seed%3 != 0 {
		return
	}
	again := refctl.NewIdentity(me.ID, rnd)
	rc, err := refctl.Dial(a.Addr)
	if err != nil {
		run.Inconclusive("dial: " + err.Error())
		return
	}
	rc.Timeout = 10 * time.Second
	s2, err := rc.PairSetup(again, a.Code(), rnd)
	rc.Close()
	if err != nil {
		if se, ok := err.(*refctl.StageError); ok && se.Transport == nil && strings.Contains(se.Stage, "error") {
			// an accessory may refuse pair-setup while it is paired (the specification's "unavailable"): nothing to check
			run.Count("repair_refused_while_paired", 1)
			return
		}
		fail(c, "re-pair:setup:"+stageSig(err), "a second pair-setup under the same identifier with a new key pair failed: "+err.Error(), nil)
		return
	}
	rv, err := refctl.Dial(a.Addr)
	if err != nil {
		run.Inconclusive("dial: " + err.Error())
		return
	}
	defer rv.Close()
	rv.Timeout = 10 * time.Second
	if _, err := rv.PairVerify(again, s2.AccessoryLTPK, s2.AccessoryID, rnd); err != nil {
		fail(c, "re-pair:verify:"+stageSig(err), "pair-setup under the same identifier with a new key pair succeeded (M6 verified), but pair-verify with that key pair fails: "+err.Error(), nil)
		return
	}
	if m, err := rv.Do("GET", "/accessories", "", nil); err != nil || m.Status != 200 {
		fail(c, "re-pair:talk", fmt.Sprintf("after re-pairing GET /accessories fails: %v", err), nil)
		return
	}
	run.Count("repairs_with_new_key_completed", 1)
}

func errClass(err error) string {
	switch err.(type) {
	case *refctl.ErrBadFrame:
		return "bad-frame"
	case *refctl.MalformedError:
		return "malformed-response"
	}
	if strings.Contains(err.Error(), "EOF") || strings.Contains(err.Error(), "reset") {
		return "connection-closed"
	}
	return "error"
}

func trunc(s string, n int) string {
	if len(s) > n {
		return s[:n]
	}
	return s
}

func main() {
	run = vf.Start("C04", "exploration")
	r := run
	base = r.WorkDir()
	r.SetRule("a configuration = (setup code, controller id, controller key pair, accessory name / number of accessories, pairings already stored, frame split policy, PUT size); " +
		"per configuration: wrong-code attempt, full pair-setup with every proof and signature verified, pair-verify with M2 verified, encrypted GET /accessories, PUT, large PUT, GET; " +
		"non-trivial = every completed configuration (distinct by all fields)")
	r.Assume("SRP values are encoded minimal-length in M1/K computations like hc does (a leading zero byte of S occurs with probability 1/256 and the specification is ambiguous there); A is chosen without leading zero byte")
	r.Assume("golang.org/x/crypto primitives and crypto/ed25519 are correct")
	r.Watchdog(time.Duration(r.Pick(20, 60)) * time.Minute)
	rnd := r.Rand("c04")
	n := r.Pick(100, 3000)
	var cfgs []config
	edgePins := []string{"00000001", "99999998", "12345679", "00102003", "10000000", "01234567"}
	for i := 0; i < n; i++ {
		c := config{Pin: randomPin(rnd), CtrlID: randomID(rnd), AccName: fmt.Sprintf("Acc %d", i), NAcc: 1, Split: "max", BigPut: 10 + rnd.Intn(500), seed: r.Seed*7919 + int64(i)}
		if i < len(edgePins) {
			c.Pin = edgePins[i]
		}
		switch rnd.Intn(6) {
		case 0:
			c.NAcc = 2 + rnd.Intn(8)
		case 1:
			c.NAcc = 20 + rnd.Intn(40)
		}
		if rnd.Intn(4) == 0 {
			c.PreStored = 1 + rnd.Intn(4)
		}
		switch rnd.Intn(4) {
		case 0:
			c.Split = "arbitrary"
		case 1:
			c.Split = "small"
		}
		switch rnd.Intn(5) {
		case 0:
			c.BigPut = 1024*(1+rnd.Intn(4)) - 150 + rnd.Intn(300) // around frame multiples
		case 1:
			c.BigPut = 3000 + rnd.Intn(6000)
		}
		if rnd.Intn(7) == 0 {
			c.AccName = "Żółw é " + fmt.Sprint(i)
		}
		c.TLVStyle = []string{"", "", "shuffled", "extra-items", "both"}[rnd.Intn(5)]
		switch rnd.Intn(4) {
		case 0: // lower-case id
			c.AccID = fmt.Sprintf("%02x:%02x:%02x:%02x:%02x:%02x", rnd.Intn(256), rnd.Intn(256), rnd.Intn(256), rnd.Intn(256), rnd.Intn(256), rnd.Intn(256))
		case 1: // mixed case
			c.AccID = fmt.Sprintf("%02X:%02x:%02X:%02x:%02X:%02x", 0xA0+rnd.Intn(16), 0xb0+rnd.Intn(16), 0xC0+rnd.Intn(16), 0xd0+rnd.Intn(16), 0xE0+rnd.Intn(16), 0xf0+rnd.Intn(16))
		}
		cfgs = append(cfgs, c)
	}
	// a slow accessory: short pauses at the hook points of the connection's write and read paths (between "M4 is on the
	// wire" and "the keys are active for the other direction", between sealing and writing, on entering a read), so that
	// the controller's next message arrives inside windows it would otherwise arrive after.  A conformant controller
	// must be served whatever the accessory's own pace.
	var hookCalls [5]int64
	points := map[string]int{"conn.write.enter": 0, "conn.write.sealed": 1, "conn.write.written": 2, "conn.write.done": 3, "conn.read.enter": 4}
	periods := [5]int64{11, 7, 3, 5, 13}
	pauses := [5]time.Duration{500 * time.Microsecond, time.Millisecond, 2 * time.Millisecond, time.Millisecond, 300 * time.Microsecond}
	var paused [5]int64
	verifhook.Install(func(point string) {
		if i, ok := points[point]; ok {
			if atomic.AddInt64(&hookCalls[i], 1)%periods[i] == 0 {
				atomic.AddInt64(&paused[i], 1)
				time.Sleep(pauses[i])
			}
		}
	})
	defer verifhook.Install(func(string) {})
	var wg sync.WaitGroup
	ch := make(chan config)
	for w := 0; w < 12; w++ {
		wg.Add(1)
		go func() {
			defer wg.Done()
			for c := range ch {
				r.Eval()
				r.Guard("config", func() { runConfig(c) })
			}
		}()
	}
	for i, c := range cfgs {
		r.Nontrivial(fmt.Sprintf("%+v", c))
		r.Distinct("controller_id_length", fmt.Sprint(len(c.CtrlID)))
		r.Distinct("frame_split_policy", c.Split)
		r.Distinct("controller_tlv_style", c.TLVStyle)
		r.SampleAt(i, func() interface{} { return c })
		ch <- c
	}
	close(ch)
	wg.Wait()
	_ = ed25519.PublicKeySize
	for p, i := range points {
		r.Count("pauses_at_"+p, int(atomic.LoadInt64(&paused[i])))
		r.Floor("pauses_at_"+p, int(atomic.LoadInt64(&paused[i])), n/3)
	}
	r.Floor("configurations_completed", int(r.Counter("configurations_completed")), n*9/10)
	r.Floor("pairs_of_controllers_paired_at_the_same_time+violations", int(r.Counter("pairs_of_controllers_paired_at_the_same_time"))+r.ViolationCount(), n/6)
	r.Floor("right_code_after_wrong_code_on_the_same_connection+violations", int(r.Counter("right_code_after_wrong_code_on_the_same_connection"))+r.ViolationCount(), n/5)
	r.Finish()
}

func idShape(id string) string {
	up, lo := false, false
	for _, r := range id {
		if r >= 'a' && r <= 'f' {
			lo = true
		}
		if r >= 'A' && r <= 'F' {
			up = true
		}
	}
	switch {
	case up && lo:
		return "mixed-case"
	case lo:
		return "lower-case"
	case up:
		return "upper-case"
	}
	return "digits-only"
}

// twoAtOnce: see runConfig. false = a failure was reported.
func twoAtOnce(c config, a *app.App, rnd *rand.Rand) bool {
	type side struct {
		id  *refctl.Identity
		cn  *refctl.Conn
		s   *refctl.Setup
		rnd *rand.Rand
		err error
	}
	var sides [2]*side
	for i := range sides {
		cn, err := refctl.Dial(a.Addr)
		if err != nil {
			run.Inconclusive("dial: " + err.Error())
			return false
		}
		defer cn.Close()
		cn.Timeout = 20 * time.Second
		sd := &side{id: refctl.NewIdentity(fmt.Sprintf("%s-twin-%d", c.CtrlID, i), rnd), cn: cn, rnd: rand.New(rand.NewSource(c.seed*13 + int64(i)))}
		sd.s, sd.err = cn.StartSetup(sd.id, a.Code(), sd.rnd)
		if sd.err != nil {
			fail(c, "two-at-once:"+stageSig(sd.err), fmt.Sprintf("controller %d of two that pair at the same time: M1/M2 failed: %v", i, sd.err), nil)
			return false
		}
		sides[i] = sd
	}
	for step, name := range []string{"M3/M4 (the SRP proofs)", "M5/M6 (the key exchange)"} {
		var wg sync.WaitGroup
		start := make(chan struct{})
		for _, sd := range sides {
			wg.Add(1)
			go func(sd *side) {
				defer wg.Done()
				<-start
				if step == 0 {
					sd.err = sd.cn.SetupVerify(sd.s)
				} else {
					sd.err = sd.cn.SetupExchange(sd.s)
				}
			}(sd)
		}
		close(start)
		wg.Wait()
		for i, sd := range sides {
			if sd.err != nil {
				fail(c, "two-at-once:"+stageSig(sd.err), fmt.Sprintf("two controllers that know the setup code pair at the same time on two connections; %s of controller %d failed: %v", name, i, sd.err), nil)
				return false
			}
		}
	}
	ctrls, err := app.Controllers(a.Dir)
	if err != nil {
		fail(c, "two-at-once:stored-entity-unreadable", "entity files unreadable after two simultaneous pair-setups: "+err.Error(), nil)
		return false
	}
	for i, sd := range sides {
		found := false
		for _, e := range ctrls {
			found = found || (e.Name == sd.id.ID && bytes.Equal(e.PublicKey, sd.id.LTPK))
		}
		if !found {
			fail(c, "two-at-once:controller-not-stored", fmt.Sprintf("controller %d of two that paired at the same time (both answered M6) is not stored", i), nil)
			return false
		}
	}
	run.Count("pairs_of_controllers_paired_at_the_same_time", 1)
	return true
}

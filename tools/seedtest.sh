#!/bin/bash
# usage: tools/seedtest.sh <worktree> "<demo setup cmd>" "<demo run cmd>" "<demo cleanup cmd>" <check ids...>
# Confirms a seeded change (suite green with it, demo red with it and green without it) and runs the given checks on it.
export GOFLAGS=-mod=mod GOPROXY=off GOSUMDB=off GOTOOLCHAIN=local
d=$1; setup=$2; runc=$3; clean=$4; shift 4
cd "$d" || exit 2
echo "=== $d"
[ "$(git diff | md5sum)" = "$(cat seed/patch.diff | md5sum)" ] && echo "worktree diff == seed/patch.diff" || echo "NOTE: worktree diff differs from seed/patch.diff"
go build ./... 2>&1 | tail -2
# the suite is run with the stored demo directory moved aside (some agents store compilable demo files there)
mv seed /tmp/seed-aside-$$ 
go test -vet=off -count=1 ./... 2>&1 | grep -E "^(FAIL|---)" | head -3; echo "suite rc=${PIPESTATUS[0]} (want 0)"
mv /tmp/seed-aside-$$ seed
eval "$setup"; eval "$runc" > /tmp/demo-with.log 2>&1; echo "demo WITH change rc=$? (want !=0)"
git apply -R seed/patch.diff; eval "$runc" > /tmp/demo-without.log 2>&1; echo "demo WITHOUT change rc=$? (want 0)"; git apply seed/patch.diff
eval "$clean"
git -C /repo apply --check "$d/seed/patch.diff" 2>/dev/null && echo applies-to-HEAD || echo "DOES NOT APPLY to /repo HEAD"
cd /verif
for c in "$@"; do out=$(VERIF_REPO=$d VERIF_SCRATCH=seed$$ timeout 1500 ./check $c quick 2>&1); rc=$?; echo "check $c rc=$rc :: $(echo "$out" | grep -a -E 'VIOLATION|INCONCLUSIVE|HELD' | head -2 | cut -c1-230)"; done

#!/bin/bash
# usage: tools/thorough.sh <outfile> <seed> <ids...>   (run from the /verif root or a snapshot of it; own scratch name)
cd "$(dirname "$0")/.."
out=$1; seed=$2; shift 2
[ -x .build/bin/gencatalog ] || ./setup.sh > /dev/null 2>&1
for id in "$@"; do
  t0=$(date +%s)
  res=$(VERIF_SEED=$seed VERIF_SCRATCH=thor ./check $id thorough 2>&1 | grep -a -E "^(VIOLATION|INCONCLUSIVE|HELD|KNOWN)" | head -3 | cut -c1-300)
  echo "$id thorough seed=$seed $(( $(date +%s)-t0 ))s :: $res" >> $out
done
echo DONE >> $out

// mutate is the mutation driver used to VALIDATE the monitors (it is not part of any check).
//
// It enumerates small syntactic mutations of the hc source files the properties are anchored in (operator swaps,
// negated conditions, off-by-one literals, deleted statements), and for each mutant, in a scratch worktree of
// /repo outside /repo and /verif:
//
//  1. go build ./...                 (mutants that do not compile are dropped)
//  2. go test -vet=off -count=1 ./... (mutants the repository's own suite kills are of no interest)
//  3. the quick checks mapped to the file, cheapest first, with VERIF_REPO=<worktree>, until one reports a
//     VIOLATION.
//
// A mutant that survives step 3 is either equivalent (does not change behaviour the properties speak about) or a
// gap in the monitors; the survivors are listed for review.
package main

import (
	"bytes"
	"encoding/json"
	"flag"
	"fmt"
	"go/ast"
	"go/parser"
	"go/printer"
	"go/token"
	"math/rand"
	"os"
	"os/exec"
	"path/filepath"
	"regexp"
	"sort"
	"strings"
	"sync"
	"time"
)

var fileChecks = map[string][]string{
	"hap/connection.go":                            {"C07", "C08", "C05", "C04", "C10"},
	"hap/session.go":                               {"C07", "C03", "C10", "C08"},
	"hap/context.go":                               {"C10", "C13", "C01"},
	"crypto/secure_session.go":                     {"C06", "C05", "C04"},
	"crypto/packet.go":                             {"C06"},
	"crypto/chacha20poly1305/chacha20_poly1305.go": {"C06", "C05"},
	"crypto/hkdf/hkdf.go":                          {"C06", "C04"},
	"crypto/ed25519.go":                            {"C13", "C04", "C03", "C02"},
	"crypto/curve25519/curve25519.go":              {"C04", "C03"},
	"hap/http/characteristics.go":                  {"C09", "C11", "C12", "C10", "C01", "C13"},
	"hap/http/server.go":                           {"C09", "C01", "C13", "C10"},
	"hap/http/accessories.go":                      {"C09", "C01", "C13"},
	"hap/http/json.go":                             {"C09"},
	"hap/chunked_writer.go":                        {"C09", "C14"},
	"hap/notification.go":                          {"C10"},
	"hap/endpoint/pair-setup.go":                   {"C02", "C04", "C13", "C20"},
	"hap/endpoint/pair-verify.go":                  {"C03", "C04", "C13", "C01"},
	"hap/endpoint/pairings.go":                     {"C13", "C20", "C01"},
	"hap/endpoint/resource.go":                     {"C13", "C01"},
	"hap/pair/setup_server_controller.go":          {"C02", "C04", "C13", "C01"},
	"hap/pair/setup_server_session.go":             {"C04", "C02"},
	"hap/pair/srp.go":                              {"C04"},
	"hap/pair/verify_server_controller.go":         {"C03", "C04", "C13"},
	"hap/pair/verify_session.go":                   {"C04", "C03"},
	"hap/pair/pairing_controller.go":               {"C13", "C20", "C01"},
	"hap/device.go":                                {"C20", "C04"},
	"hap/secured_device.go":                        {"C20", "C04"},
	"util/tlv8.go":                                 {"C16", "C04"},
	"util/file_storage.go":                         {"C18", "C19"},
	"util/xhmurl.go":                               {"C20"},
	"util/mac.go":                                  {"C20"},
	"db/database.go":                               {"C18", "C19", "C20", "C03"},
	"config.go":                                    {"C20", "C19"},
	"ip_transport.go":                              {"C10", "C20", "C01"},
	"password.go":                                  {"C20"},
	"accessory/container.go":                       {"C14", "C20"},
	"accessory/accessory.go":                       {"C14", "C15"},
	"service/service.go":                           {"C14", "C09"},
	"characteristic/characteristic.go":             {"C12", "C11", "C09", "C10"},
	"characteristic/int.go":                        {"C12", "C09", "C15"},
	"characteristic/float.go":                      {"C12", "C09", "C15"},
	"characteristic/string.go":                     {"C15", "C12", "C09"},
	"characteristic/bytes.go":                      {"C15", "C12", "C09"},
	"characteristic/bool.go":                       {"C15", "C12", "C09"},
	"tlv8/encoder.go":                              {"C17"},
	"tlv8/decoder.go":                              {"C17"},
	"tlv8/reader.go":                               {"C17"},
	"tlv8/writer.go":                               {"C17"},
}

type site struct {
	File   string `json:"file"`
	Line   int    `json:"line"`
	Op     string `json:"op"`
	Detail string `json:"detail"`
	idx    int    // index of the site within (file, op-class) enumeration
	apply  func() // mutates the AST in place
	undo   func()
}

type result struct {
	site
	ID      string            `json:"id"`
	Build   bool              `json:"builds"`
	Tests   string            `json:"repo_tests"` // pass | fail
	Checks  []checkRes        `json:"checks,omitempty"`
	Verdict string            `json:"verdict"` // build-fail | killed-by-repo-tests | killed-by:<C> | survived | inconclusive
	Secs    float64           `json:"secs"`
	Extra   map[string]string `json:"extra,omitempty"`
}

type checkRes struct {
	Check string `json:"check"`
	RC    int    `json:"rc"`
	Sig   string `json:"sig,omitempty"`
}

func swapOp(t token.Token) (token.Token, bool) {
	switch t {
	case token.EQL:
		return token.NEQ, true
	case token.NEQ:
		return token.EQL, true
	case token.LSS:
		return token.LEQ, true
	case token.LEQ:
		return token.LSS, true
	case token.GTR:
		return token.GEQ, true
	case token.GEQ:
		return token.GTR, true
	case token.LAND:
		return token.LOR, true
	case token.LOR:
		return token.LAND, true
	case token.ADD:
		return token.SUB, true
	case token.SUB:
		return token.ADD, true
	case token.SHL:
		return token.SHR, true
	}
	return t, false
}

// enumerate collects the mutation sites of one parsed file.
func enumerate(fset *token.FileSet, f *ast.File, rel string) []*site {
	var sites []*site
	add := func(pos token.Pos, op, detail string, apply, undo func()) {
		sites = append(sites, &site{File: rel, Line: fset.Position(pos).Line, Op: op, Detail: detail, apply: apply, undo: undo})
	}
	inConst := map[ast.Node]bool{}
	ast.Inspect(f, func(n ast.Node) bool {
		if gd, ok := n.(*ast.GenDecl); ok && (gd.Tok == token.CONST || gd.Tok == token.IMPORT || gd.Tok == token.TYPE) {
			ast.Inspect(gd, func(m ast.Node) bool { inConst[m] = true; return true })
		}
		return true
	})
	ast.Inspect(f, func(n ast.Node) bool {
		switch x := n.(type) {
		case *ast.BinaryExpr:
			if nt, ok := swapOp(x.Op); ok {
				// string concatenation: skip ADD/SUB on non-numeric looking operands
				if (x.Op == token.ADD || x.Op == token.SUB) && (isStringish(x.X) || isStringish(x.Y)) {
					return true
				}
				old := x.Op
				add(x.OpPos, "binop", fmt.Sprintf("%s -> %s", old, nt), func() { x.Op = nt }, func() { x.Op = old })
			}
		case *ast.IfStmt:
			old := x.Cond
			add(x.If, "negate-if", "if c -> if !(c)", func() { x.Cond = &ast.UnaryExpr{Op: token.NOT, X: &ast.ParenExpr{X: old}} }, func() { x.Cond = old })
		case *ast.BasicLit:
			if x.Kind == token.INT && !inConst[x] {
				old := x.Value
				var v int64
				if _, err := fmt.Sscan(old, &v); err == nil && !strings.HasPrefix(old, "0x") && !strings.HasPrefix(old, "0") || old == "0" {
					add(x.ValuePos, "int+1", fmt.Sprintf("%s -> %d", old, v+1), func() { x.Value = fmt.Sprint(v + 1) }, func() { x.Value = old })
					if v > 0 {
						add(x.ValuePos, "int-1", fmt.Sprintf("%s -> %d", old, v-1), func() { x.Value = fmt.Sprint(v - 1) }, func() { x.Value = old })
					}
				}
			}
		case *ast.BlockStmt:
			for i := range x.List {
				i := i
				st := x.List[i]
				deletable := false
				what := ""
				switch s := st.(type) {
				case *ast.ExprStmt:
					if call, ok := s.X.(*ast.CallExpr); ok && !isLogCall(call) {
						deletable, what = true, "call"
					}
				case *ast.IncDecStmt:
					deletable, what = true, "incdec"
				case *ast.AssignStmt:
					if s.Tok != token.DEFINE {
						deletable, what = true, "assign"
					}
				case *ast.DeferStmt:
					deletable, what = true, "defer"
				case *ast.ReturnStmt:
					if len(s.Results) == 0 && i < len(x.List) { // bare return
						deletable, what = true, "return"
					}
				case *ast.BranchStmt:
					if s.Tok == token.CONTINUE || s.Tok == token.BREAK {
						deletable, what = true, strings.ToLower(s.Tok.String())
					}
				}
				if deletable {
					add(st.Pos(), "delete-"+what, oneLine(fset, st), func() { x.List[i] = &ast.EmptyStmt{Semicolon: st.Pos(), Implicit: false} }, func() { x.List[i] = st })
				}
			}
		}
		return true
	})
	return sites
}

func isStringish(e ast.Expr) bool {
	switch x := e.(type) {
	case *ast.BasicLit:
		return x.Kind == token.STRING || x.Kind == token.CHAR
	case *ast.CallExpr:
		if id, ok := x.Fun.(*ast.Ident); ok && id.Name == "string" {
			return true
		}
		if se, ok := x.Fun.(*ast.SelectorExpr); ok && (se.Sel.Name == "Sprintf" || se.Sel.Name == "String" || se.Sel.Name == "EncodeToString") {
			return true
		}
	case *ast.BinaryExpr:
		return isStringish(x.X) || isStringish(x.Y)
	}
	return false
}

func isLogCall(c *ast.CallExpr) bool {
	var b bytes.Buffer
	printer.Fprint(&b, token.NewFileSet(), c.Fun)
	s := b.String()
	return strings.HasPrefix(s, "log.") || strings.HasPrefix(s, "fmt.Print") || strings.HasPrefix(s, "println")
}

func oneLine(fset *token.FileSet, n ast.Node) string {
	var b bytes.Buffer
	printer.Fprint(&b, fset, n)
	s := strings.Join(strings.Fields(b.String()), " ")
	if len(s) > 100 {
		s = s[:100] + "..."
	}
	return s
}

type job struct {
	rel  string
	idx  int // index into the site list of the file (re-enumerated by the worker)
	id   string
	site site
}

func run(dir string, env []string, timeout time.Duration, name string, args ...string) (int, string) {
	cmd := exec.Command("timeout", append([]string{"-s", "KILL", fmt.Sprint(int(timeout.Seconds())), name}, args...)...)
	cmd.Dir = dir
	cmd.Env = append(os.Environ(), env...)
	out, err := cmd.CombinedOutput()
	rc := 0
	if err != nil {
		if ee, ok := err.(*exec.ExitError); ok {
			rc = ee.ExitCode()
		} else {
			rc = -1
		}
	}
	return rc, string(out)
}

var reSig = regexp.MustCompile(`sig=(\S+)`)

func main() {
	repo := flag.String("repo", "/repo", "repository")
	verif := flag.String("verif", "/verif", "verif root")
	filesFlag := flag.String("files", "", "comma separated list of files relative to the repo (default: all mapped files)")
	workers := flag.Int("workers", 6, "parallel scratch worktrees")
	outPath := flag.String("out", "/verif/.work/mutation/results.jsonl", "result file (appended)")
	limit := flag.Int("limit", 0, "at most this many mutants per file (0 = all), chosen by -seed")
	seed := flag.Int64("seed", 1, "seed for -limit sampling")
	ops := flag.String("ops", "", "only these operator classes (comma separated prefixes)")
	list := flag.Bool("list", false, "only list the sites")
	only := flag.String("only", "", "file with mutant ids (one per line, first field): run exactly these again, whatever the result file says")
	flag.Parse()

	var files []string
	if *filesFlag != "" {
		files = strings.Split(*filesFlag, ",")
	} else {
		for f := range fileChecks {
			files = append(files, f)
		}
	}
	sort.Strings(files)
	os.MkdirAll(filepath.Dir(*outPath), 0o755)

	// resume: skip ids already in the result file
	done := map[string]bool{}
	if b, err := os.ReadFile(*outPath); err == nil {
		for _, l := range strings.Split(string(b), "\n") {
			var r result
			if json.Unmarshal([]byte(l), &r) == nil && r.ID != "" {
				done[r.ID] = true
			}
		}
	}

	var onlyIDs map[string]bool
	if *only != "" {
		onlyIDs = map[string]bool{}
		b, err := os.ReadFile(*only)
		if err != nil {
			panic(err)
		}
		for _, l := range strings.Split(string(b), "\n") {
			if f := strings.Fields(l); len(f) > 0 {
				onlyIDs[f[0]] = true
			}
		}
		done = map[string]bool{}
	}
	var jobs []job
	rnd := rand.New(rand.NewSource(*seed))
	for _, rel := range files {
		if _, ok := fileChecks[rel]; !ok {
			fmt.Fprintln(os.Stderr, "no checks mapped for", rel)
			continue
		}
		fset := token.NewFileSet()
		f, err := parser.ParseFile(fset, filepath.Join(*repo, rel), nil, parser.ParseComments)
		if err != nil {
			fmt.Fprintln(os.Stderr, err)
			continue
		}
		sites := enumerate(fset, f, rel)
		var sel []int
		for i, s := range sites {
			if *ops != "" {
				ok := false
				for _, p := range strings.Split(*ops, ",") {
					ok = ok || strings.HasPrefix(s.Op, p)
				}
				if !ok {
					continue
				}
			}
			sel = append(sel, i)
		}
		if *limit > 0 && len(sel) > *limit {
			rnd.Shuffle(len(sel), func(a, b int) { sel[a], sel[b] = sel[b], sel[a] })
			sel = sel[:*limit]
			sort.Ints(sel)
		}
		for _, i := range sel {
			id := fmt.Sprintf("%s#%d:%s@%d", rel, i, sites[i].Op, sites[i].Line)
			if done[id] || (onlyIDs != nil && !onlyIDs[id]) {
				continue
			}
			jobs = append(jobs, job{rel: rel, idx: i, id: id, site: *sites[i]})
		}
	}
	fmt.Printf("%d mutants to run (%d already done)\n", len(jobs), len(done))
	if *list {
		for _, j := range jobs {
			fmt.Printf("%s  %s\n", j.id, j.site.Detail)
		}
		return
	}

	outF, err := os.OpenFile(*outPath, os.O_APPEND|os.O_CREATE|os.O_WRONLY, 0o644)
	if err != nil {
		panic(err)
	}
	var omu sync.Mutex
	goenv := []string{"GOFLAGS=-mod=mod", "GOPROXY=off", "GOSUMDB=off", "GOTOOLCHAIN=local"}

	ch := make(chan job)
	var wg sync.WaitGroup
	for w := 0; w < *workers; w++ {
		wg.Add(1)
		go func(w int) {
			defer wg.Done()
			wt := fmt.Sprintf("/tmp/mutw-%d-%d", os.Getpid(), w)
			exec.Command("git", "-C", *repo, "worktree", "remove", "--force", wt).Run()
			if out, err := exec.Command("git", "-C", *repo, "worktree", "add", "--detach", wt, "HEAD").CombinedOutput(); err != nil {
				fmt.Fprintln(os.Stderr, "worktree:", string(out))
				return
			}
			defer exec.Command("git", "-C", *repo, "worktree", "remove", "--force", wt).Run()
			for j := range ch {
				t0 := time.Now()
				res := result{site: j.site, ID: j.id}
				path := filepath.Join(wt, j.rel)
				orig, _ := os.ReadFile(path)
				fset := token.NewFileSet()
				f, err := parser.ParseFile(fset, path, orig, parser.ParseComments)
				if err != nil {
					continue
				}
				sites := enumerate(fset, f, j.rel)
				if j.idx >= len(sites) {
					continue
				}
				sites[j.idx].apply()
				var buf bytes.Buffer
				printer.Fprint(&buf, fset, f)
				os.WriteFile(path, buf.Bytes(), 0o644)
				func() {
					defer os.WriteFile(path, orig, 0o644)
					if rc, _ := run(wt, goenv, 180*time.Second, "go", "build", "./..."); rc != 0 {
						res.Verdict = "build-fail"
						return
					}
					res.Build = true
					if rc, _ := run(wt, goenv, 90*time.Second, "go", "test", "-vet=off", "-count=1", "./..."); rc != 0 {
						res.Tests, res.Verdict = "fail", "killed-by-repo-tests"
						return
					}
					res.Tests = "pass"
					res.Verdict = "survived"
					for _, c := range fileChecks[j.rel] {
						env := append(goenv, "VERIF_REPO="+wt, fmt.Sprintf("VERIF_SCRATCH=mw%d", w), "VERIF_WATCHDOG=300", "VERIF_SEED=1")
						rc, out := run(*verif, env, 400*time.Second, "./check", c, "quick")
						cr := checkRes{Check: c, RC: rc}
						if m := reSig.FindStringSubmatch(out); m != nil {
							cr.Sig = m[1]
						}
						res.Checks = append(res.Checks, cr)
						if rc == 1 || strings.Contains(out, "VIOLATION") {
							res.Verdict = "killed-by:" + c
							return
						}
						if rc != 0 {
							// inconclusive / watchdog: remember, but keep trying the other checks
							res.Verdict = "inconclusive"
							if rc == 137 || rc == 124 || strings.Contains(out, "watchdog") || strings.Contains(out, "SIGQUIT") {
								res.Verdict = "hang-or-timeout:" + c
							}
						}
					}
				}()
				res.Secs = time.Since(t0).Seconds()
				b, _ := json.Marshal(res)
				omu.Lock()
				outF.Write(append(b, '\n'))
				omu.Unlock()
				fmt.Printf("w%d %-60s %-28s %5.1fs  %s\n", w, j.id, res.Verdict, res.Secs, j.site.Detail)
			}
		}(w)
	}
	for _, j := range jobs {
		ch <- j
	}
	close(ch)
	wg.Wait()
	outF.Close()
	exec.Command("git", "-C", *repo, "worktree", "prune").Run()
}

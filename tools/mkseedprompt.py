#!/usr/bin/env python3
"""mkseedprompt.py <round+index e.g. f3> <property id>: writes /tmp/seed-prompt-<ri>.txt from tools/seed-prompt-template.txt
with the property text, the 'hard to notice' direction and the list of ideas already used for that property
(summaries of /verif/seeded/<id>-*), and creates the worktree /tmp/seed-<ri> at /repo HEAD."""
import json, glob, os, subprocess, sys
ri, pid = sys.argv[1], sys.argv[2]
props = {json.loads(l)['id']: json.loads(l) for l in open('/verif/properties.jsonl')}
pids = pid.split(',')
texts, used = [], []
for q in pids:
    p = props[q]
    texts.append("%s — %s\n\n%s\n\nQuantified: %s" % (q, p['title'], p['statement'], p['quantifier']['text']))
    for d in sorted(glob.glob('/verif/seeded/%s-*' % q)):
        used.append(q + ': ' + json.load(open(d + '/meta.json')).get('summary', '')[:200])
text = "\n\n-----\n".join(texts)
if len(pids) > 1:
    text = "(You may choose ONE of the following properties; pick the one for which you can find the most subtle, hardest-to-notice breaking change, and say in meta.json which one you chose.)\n\n" + text
direction = ("\n\nDirection for this task: the change should be one that a careful reviewer and a thorough randomised test campaign would both be "
  "likely to miss: it should depend on a rare combination (two conditions that must coincide, a boundary value of an internal buffer or counter, "
  "a particular order of three or more operations, a particular timing between two goroutines, a fault or kill at one particular step, a caller that "
  "reuses a buffer, state left over from an earlier failed operation, a value that only 1 input in several hundred has). Avoid the most obvious sites.")
if used:
    direction += "\nIdeas that have ALREADY been used in earlier exercises and must not be repeated (find something different):\n- " + "\n- ".join(used)
t = open('/verif/tools/seed-prompt-template.txt').read()
wt = '/tmp/seed-' + ri
t = t.replace('PROPERTY', text + direction).replace('WORKTREE', wt).replace('/tmp/WT.patch', wt + '.patch')
open('/tmp/seed-prompt-%s.txt' % ri, 'w').write(t)
if not os.path.isdir(wt):
    subprocess.check_call(['git', '-C', '/repo', 'worktree', 'add', '-q', '--detach', wt, 'HEAD'])
print(ri, pid, len(t), 'bytes;', len(used), 'used ideas')

#!/bin/bash
# Re-validates every kept seeded change against the current /repo HEAD and the current checks:
# applies seeded/<name>/patch.diff in a scratch worktree, runs the checks listed in meta.json (caught_by),
# prints one line per seed. Scratch worktrees live under /tmp and are removed. Uses its own scratch name (the committed
# evidence is not touched); can run from a snapshot (vp run -- tools/seedmatrix.sh seedmatrix.log).
cd "$(dirname "$0")/.."
[ -x .build/bin/gencatalog ] || ./setup.sh > /dev/null 2>&1
mkdir -p .work
out=${1:-.work/seedmatrix.log}
: > "$out"
for d in seeded/*/; do
  name=$(basename "$d")
  checks=$(python3 -c "import json;print(' '.join(json.load(open('$d/meta.json')).get('caught_by',[])))")
  wt=/tmp/sm-$$-$name
  git -C /repo worktree add -q --detach "$wt" HEAD 2>/dev/null
  if ! git -C "$wt" apply "$PWD/$d/patch.diff" 2>/dev/null; then
    echo "$name :: patch does not apply to HEAD (see meta.json notes)" | tee -a "$out"
    git -C /repo worktree remove --force "$wt"; continue
  fi
  if ! (cd "$wt" && GOFLAGS=-mod=mod GOPROXY=off GOSUMDB=off GOTOOLCHAIN=local go build ./... >/dev/null 2>&1); then
    echo "$name :: does not build" | tee -a "$out"; git -C /repo worktree remove --force "$wt"; continue
  fi
  line="$name ::"
  [ -z "$checks" ] && line="$line (kept as not breaking the property; no check expected to fire)"
  for c in $checks; do
    mkdir -p .work
    VERIF_REPO=$wt VERIF_SCRATCH=sm timeout 1500 ./check $c quick > .work/sm-$name-$c.out 2>&1; rc=$?
    sig=$(grep -a -m1 -o 'sig=[^ ]*' .work/sm-$name-$c.out)
    line="$line $c rc=$rc $sig;"
  done
  echo "$line" | tee -a "$out"
  git -C /repo worktree remove --force "$wt"
  rm -f .work/sm-$name-*.out
done
git -C /repo worktree prune

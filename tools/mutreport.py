#!/usr/bin/env python3
"""mutreport.py [result files in order...] : merges the passes of tools/mutate (a later pass replaces the verdict of a
mutant), prints the score and writes tools/mutation-survivors.md with every mutant that compiles, passes the
repository suite and is not reported by a check, classified by the rules below (first match wins)."""
import json, re, sys, collections

files = sys.argv[1:] or ['/verif/.work/mutation/results-pass%d.jsonl' % i for i in range(1, 10)]
final = {}
for f in files:
    try:
        for l in open(f):
            try:
                r = json.loads(l)
            except Exception:
                continue
            if r.get('id'):
                if r['verdict'].startswith(('inconclusive', 'hang')) and r['id'] in final and final[r['id']]['verdict'].startswith('killed'):
                    continue
                final[r['id']] = r
    except FileNotFoundError:
        pass

# (class, regex on "id :: detail")
RULES = [
 ('HOOK   a verifhook line was deleted: the checks that depend on the point end INCONCLUSIVE through their per-point floors (not a property of hc)',
  r'verifhook\.'),
 ('EQ-cmp  Equal() helpers of the model objects (used by nothing the properties observe)',
  r'accessory/accessory\.go#.*@(12[5-9]|13[0-6])|accessory/container\.go#.*@(5[6-9]|6[0-2])|characteristic/characteristic\.go#.*@91|service/service\.go#.*@(4[1-9]|5[0-4])'),
 ('OOS-info  defaults of the accessory information service and the identify callback plumbing (no property speaks about them)',
  r'accessory/accessory\.go#'),
 ('OOS-getter  Bytes.OnValueRemoteUpdate convenience wrapper for an empty value (the generic callbacks are what C09/C10 constrain)',
  r'characteristic/bytes\.go#7:'),
 ('EQ-bound  comparison operator at a point where both sides coincide, or a bound that another clamp re-applies',
  r'characteristic/characteristic\.go#.*@(17[7-9]|18[0-9]|19[01]|25[89]|26[0-4]|27[2-9]|28[0-5])'),
 ('OOS-32bit  only differs where int is 32 bits', r'max = maxInt'),
 ('OOS-config  listening port / IP / config merge defaults and error logging (no property speaks about them)',
  r'^config\.go#'),
 ('EQ-zero  assignment of the zero value / reset of something that is not read again / capacity hint',
  r'encryptCount = 0|decryptCount = 0|con\.pending = nil|nextCryptographer = nil|util/tlv8\.go#.*@(20|26)|hkdf\.go#|crypto/ed25519\.go#.*@3[23]'),
 ('EQ-dead  unreachable or idempotent: code after a panic, a break at the end of a loop body, a size that only has to be large enough, a Peek that a longer Peek follows',
  r'crypto/packet\.go#|hap/connection\.go#.*@(65|74|75|100|105|110|120|14[23])|delete-break|hap/http/server\.go#.*@83|util/xhmurl\.go#.*@(5[2-5]|28|29|64)'),
 ('OOS-close  who closes the socket after an error was reported (C05 asks for the report)', r'hap/connection\.go#.*@132|listener\.Close'),
 ('OOS-http  response cosmetics: Content-Type headers, explicit 200, the custom 470 code, error logging branches, chunk size, HTML escaping, EVENT status text',
  r'Content-Type|WriteHeader\(http\.StatusOK\)|47[01]|469|hap/http/json\.go#|hap/notification\.go#|hap/http/characteristics\.go#.*@(4[36]|11[1]|12[47]|168|90)|hap/http/accessories\.go#'),
 ('LENIENT-status  which error status an entry gets (C09 asks for "a value or an error status")', r'hap/http/characteristics\.go#.*@77'),
 ('OOS-resource  /resource (camera snapshot) and /identify details (only refusal for unverified peers and absence of panics are properties)',
  r'hap/endpoint/resource\.go#|/identify'),
 ('DID  defence in depth: reset() of a pairing state machine on a path after which nothing can be stored / verified anyway (the next start is rejected once, which C13 allows)',
  r'reset\(\)|hap/pair/(setup|verify)_server_controller\.go#.*@(32|142|153|182|189|260)'),
 ('OOS-mdns  mDNS service record details, transport shutdown',
  r'^ip_transport\.go#'),
 ('OOS-id-format  the textual form of the device id (C20 asks for stability)', r'util/mac\.go#'),
 ('LENIENT-tlv8  tlv8 struct decoder: what happens when a tag is absent or an error path is taken (C17 asks for round trips and "a value or an error")',
  r'^tlv8/'),
 ('EQ-generic  Format set by the generic NewBool / NewString / NewBytes helpers: every catalog constructor sets it again (NewInt / NewFloat never set one)',
  r'characteristic/(bool|string|bytes)\.go#0:'),
 ('OOS-uint64  lower clamp of the uint64 format: no constructor of the library uses it (0 is stored as 1: still inside the range C12 asks for)',
  r'characteristic/characteristic\.go#77:'),
 ('EQ-boundary  > versus >= where the two differ only for an empty remainder',
  r'hap/chunked_writer\.go#5:|hap/connection\.go#87:'),
 ('DEADLOCK-slow  Unsubscribe keeps the session lock: every later use of the session blocks. Run by hand C10 reports deadlock:hap.(*session).Decrypter after 5.5 minutes (the stall detector needs the whole workload to come to a halt); the 300 s limit of the mutation driver ended the run first',
  r'hap/session\.go#25:'),
 ('EQ-handler  pair-start handler stored per session: set again on every request', r'hap/session\.go#15:'),
 ('EQ-storage  error-path cleanup of a failed write, read chunk size, listing details not observable through the API',
  r'util/file_storage\.go#|db/database\.go#'),
]

viable = {i: r for i, r in final.items() if r['verdict'] not in ('build-fail', 'killed-by-repo-tests')}
killed = {i: r for i, r in viable.items() if r['verdict'].startswith('killed-by:')}
rest = {i: r for i, r in viable.items() if i not in killed}
by = collections.defaultdict(list)
for i, r in sorted(rest.items()):
    key = i + ' :: ' + r.get('detail', '')
    for cls, rx in RULES:
        if re.search(rx, key):
            by[cls].append(r)
            break
    else:
        by['UNCLASSIFIED'].append(r)

tot = collections.Counter(r['verdict'].split(':')[0] for r in final.values())
kc = collections.Counter(r['verdict'].split(':')[1] for r in killed.values())
lines = []
lines.append('# Mutation run: survivors and their triage\n')
lines.append('Generated by `tools/mutreport.py` from the passes of `tools/mutate` (AST mutants of the files the properties are anchored in:')
lines.append('deleted calls / assignments / returns / defers / breaks / continues, negated conditions, swapped comparison and logical operators,')
lines.append('integer constants +-1). A mutant counts only if it builds and passes the repository test suite unedited.\n')
lines.append('| | |\n|---|---|')
lines.append('| mutants generated | %d |' % len(final))
lines.append('| do not build | %d |' % tot['build-fail'])
lines.append('| killed by the repository suite | %d |' % tot['killed-by-repo-tests'])
lines.append('| remaining (build, pass the suite) | %d |' % len(viable))
lines.append('| reported by a check (VIOLATION) | %d (%.1f %%) |' % (len(killed), 100.0 * len(killed) / max(1, len(viable))))
lines.append('| not reported | %d |' % len(rest))
lines.append('\nKills per check: ' + ', '.join('%s %d' % (k, v) for k, v in sorted(kc.items())) + '\n')
lines.append('Every mutant that was not reported is listed below under the reason it was judged not to break a given property')
lines.append('(EQ = behaviourally equivalent, OOS = outside what the twenty properties state, LENIENT = a choice the property leaves')
lines.append('to the implementation, DID = defence in depth without an observable effect under the properties, HOOK = instrumentation).')
lines.append('Mutants under UNCLASSIFIED have not been judged.\n')
real = len(rest) - sum(len(v) for k, v in by.items() if k.startswith('HOOK'))
for cls in [c for c, _ in RULES] + ['UNCLASSIFIED']:
    if not by.get(cls):
        continue
    lines.append('## %s (%d)\n' % (cls, len(by[cls])))
    for r in by[cls]:
        lines.append('- `%s` %s — %s' % (r['id'], r['verdict'].split(':')[0], r.get('detail', '')[:90].replace('|', '\\|')))
    lines.append('')
open('/verif/tools/mutation-survivors.md', 'w').write('\n'.join(lines) + '\n')
print('mutants', len(final), 'viable', len(viable), 'killed', len(killed), '%.1f%%' % (100.0 * len(killed) / max(1, len(viable))), 'not reported', len(rest))
for cls in by:
    print('%4d  %s' % (len(by[cls]), cls[:100]))

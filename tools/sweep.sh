#!/bin/bash
# usage: tools/sweep.sh <outfile> <tier> <seeds...>   (run from the /verif root or a snapshot of it)
# Runs every check at the given seeds with its own scratch name (the committed evidence is not touched).
cd "$(dirname "$0")/.."
out=$1; tier=$2; shift 2
[ -x .build/bin/gencatalog ] || ./setup.sh > /dev/null 2>&1
for seed in "$@"; do
for i in $(seq -w 1 20); do
  t0=$(date +%s)
  res=$(VERIF_SEED=$seed VERIF_SCRATCH=sweep ./check C$i $tier 2>&1 | grep -a -E "^(VIOLATION|INCONCLUSIVE|HELD|KNOWN)" | head -3 | cut -c1-300)
  echo "C$i $tier seed=$seed $(( $(date +%s)-t0 ))s :: $res" >> $out
done
done
echo DONE >> $out

#!/usr/bin/env python3
"""Writes /verif/MANIFEST.json from the table below (kept in one place so that it stays valid)."""
import json, os, subprocess
ROOT = os.path.dirname(os.path.dirname(os.path.abspath(__file__)))
hooks_commits = ["54f3e88", "282fbb2", "529567f", "3de4184"]
CHECKS = {
 # id: (category, technique, text, note, design_ref)
 "C04": ("exploration", "runtime monitoring: independent reference controller (refctl) verifying every proof/signature/key against a real transport",
         "Per configuration a real IP transport is started and an independently written controller performs a wrong-code attempt, full pair-setup (server proof, M6 decryption, accessory signature verified), pair-verify (M2 verified) and encrypted requests of one to many frames with three frame-split policies; held on the configurations executed (100 quick / 3000 thorough); every third configuration pairs again under the same identifier with a new key pair and verifies with it.",
         "trusted base: Go runtime, x/crypto primitives, crypto/ed25519, refctl (self-tested against RFC 5869, RFC 3526 prime formula, own SRP server); SRP numbers in minimal-length encoding like hc", "DESIGN.md §5 C04"),
 "C05": ("exploration", "runtime monitoring: enumerated stream alterations against a frame-prefix oracle, directly on Decrypt and through hap.Connection over a scripted net.Conn",
         "Every single-bit flip, every truncation offset, every permutation/duplication/deletion of frames, reflection, cross-session and cross-counter replays, forged frames (length field 0, 1, 16, 17, 1024) inserted at and substituted for every frame of reference-framed streams; after the first error the caller renews / clears its deadlines and keeps reading at several counter positions; oracle: released plaintext is an unmodified frame prefix and an error (or a closed connection) is reported once the altered frame has arrived.",
         "trusted base: x/crypto chacha20poly1305, refctl framing", "DESIGN.md §5 C05"),
 "C06": ("exploration", "runtime monitoring: byte-identity with an independent reference framing, differential decrypt both ways, reader-mode fuzzing",
         "hc's Encrypt output must equal the reference framing byte for byte (pins frame size, length encoding, nonce layout, key labels, AAD, counter continuity) for all payload lengths 0..1100 + boundaries (quick) / 0..4097 exhaustively + sampled to 64 KiB (thorough), 8 reader modes, sequences of messages; long sessions across the 2^8 / 2^16 (thorough 2^17, 2^20) frame-counter boundaries; full-duplex use of one session; queued use (several results sealed / opened before any is read out, caller buffers reused).",
         "trusted base: x/crypto chacha20poly1305, refctl framing/HKDF (self-tested)", "DESIGN.md §5 C06"),
 "C07": ("exploration", "runtime monitoring: online trace checker over a scripted net.Conn (segmentation, idle periods, buffer sizes) + delay-injected handovers on a real transport",
         "Harness A: thousands of scripted segmentations incl. every single cut offset of base streams, idle periods and caller buffer sizes, with an online prefix / no-EOF / promptness / bounded-completion oracle. Harness A2: the session keys are installed inside the Read call that hands out the first ciphertext (a read pending across the handover) for caller buffers 1..9000 bytes and up to 8 coalesced frames. Harness B: pair-verify handovers under natural, late-abort and late-background-read schedules (delay hooks), three back-to-back requests each, then a repeated pair-verify on the encrypted connection under every schedule; unanswered decided by bounded progress on other connections; empty read buffers, reader reuses its buffer; floors per hook point.",
         "trusted base: refctl framing; hooks only widen schedules (4 points in hap/connection.go)", "DESIGN.md §5 C07"),
 "C08": ("exploration", "runtime monitoring: offline stream-order checker with unique-id payloads over recorded concurrent Write histories + Go race detector on the same workload",
         "2..16 goroutines write unique-id payloads of 1..3 frames to one hap.Connection over TCP, a scripted and a slow socket, with PRNG delays between sealing and the socket write; the captured stream must parse into frames authenticating at consecutive counters, payloads complete, exactly once, respecting real-time order; race reports filtered to the write path count as violations; floors on overlapping Write calls and distinct arrival orders.",
         "trusted base: refctl framing, Go race detector; a single net.Conn.Write is contiguous", "DESIGN.md §5 C08"),
 "C15": ("exploration", "runtime monitoring: generated driver calls every exported constructor; objects compared with gen/metadata.json by an independent reader",
         "Every New* constructor of characteristic/service/accessory found in the tree at check time is called under recover and compared with the bundled metadata (type id, format, perms, unit, min/max/step, default) and with its own Type constant; services checked for required characteristics and duplicate types. Finite and exhaustive at every run.",
         "trusted base: go/parser-based generator (cross-checked by a textual recount), encoding/json", "DESIGN.md §5 C15"),
 "C16": ("exploration", "runtime monitoring: differential testing against an independent TLV8 codec + model of set operations, parser fuzzing with truncations and mutations",
         "All tags 0..255, all lengths 0..1024 for several tags, long values to 70000 bytes, sequences of sets with repeated/interleaved tags, the caller overwrites its buffer right after every SetBytes; parser inputs: exhaustive tiny inputs, random, every truncation and length-byte mutation of valid encodings.",
         "trusted base: refctl TLV8 codec (self-tested)", "DESIGN.md §5 C16"),
 "C18": ("exploration", "runtime monitoring: model-based history checking (map model) with in-process and child-process reopen, witness shrinking",
         "Generated histories of Set/Get/Delete/KeysWithSuffix and SaveEntity/EntityWithName/DeleteEntity/Entities over few keys with values 0..4096 bytes biased to shorter/longer overwrites, arbitrary-byte entity names, reopen between segments (real child processes for a subset); shorter overwrites that are aligned proper prefixes; the caller overwrites every buffer it passed in once the call returned, overwrites or keeps (and re-checks after each of the next three operations) what it got back.",
         "assumes filename-safe raw storage keys (':' aliasing is documented by hc), entity names of length >= 1", "DESIGN.md §5 C18"),
 "C19": ("fault_enumeration", "fault injection: strace SIGKILL injection at every state-changing syscall of a storage operation, read-back oracle in a fresh process",
         "For every scenario (Set old x new sizes, SaveEntity new/overwrite, DeleteEntity, Delete, NewIPTransport first start / unchanged restart / structural change) the baseline syscall trace is enumerated and the child is killed before each state-changing syscall on a fresh copy; the kill is confirmed from the trace; oracle: written key old-or-new in full, neighbours byte-identical, Entities() succeeds. Exhaustive per scenario for the syscall sequence the build under test performs. Plus a sampling scenario outside the enumeration: four goroutines writing the same keys, SIGKILL at a random moment (150 / 3000 kills), every key old-or-one-of-the-new values in full.",
         "covers process kills between file-system operations, not power loss or torn single writes; trusted base: strace 6.1", "DESIGN.md §5 C19"),
 "C01": ("exploration", "runtime monitoring: attacker histories against a real transport with refusal / no-disclosure (planted canaries) / no-change invariants checked after every request, EVENT fences, a legitimate controller interleaved and, in a concurrent phase, simultaneous; Go race detector on that phase",
         "Generated histories (all sequences of length <= 2 over 26 operations, random ones up to 12 steps) on one or two attacker connections: plaintext requests to every protected endpoint, pair-setup / pair-verify fragments and forgeries, ciphertext under attacker-derivable keys; after every request: no 2xx, no canary or attribute token in the body, no value / callback / snapshot / stored-pairing change; final fence shows no EVENT on attacker connections; verification does not carry over. Persistence histories (100 / 256 failed handshakes, then protected requests). Concurrent phase: 3 verified controllers and 4 unverified peers hammer the protected endpoints at the same time (every answer to an unverified peer a refusal, state unchanged), repeated in a -race child whose reports in Authenticate / context / session / endpoint / pair code are violations.",
         "trusted base: refctl; /identify is not counted as protected; the attacker model holds neither setup code nor paired key", "DESIGN.md §5 C01"),
 "C02": ("exploration", "runtime monitoring: message-sequence exploration of the pair-setup state machine with a database-snapshot invariant after every message (in-process controller and real transport)",
         "Every sequence up to length 2 (quick) / 3 (thorough) over a 16-symbol core alphabet, critical prefixes x the full 26-symbol alphabet, random sequences of length 3..8 on one or two connections sharing a database; invariant: stored entities change only by a genuine key exchange of an exchange whose SRP proof the monitor itself completed. Persistence histories: K failed attempts (K in {3,100}; thorough up to 300, around the lock-out thresholds 100 and 256) followed by what a peer without the code can send and by an honest exchange.",
         "trusted base: refctl SRP/HKDF/AEAD use (self-tested); responses are not part of the verdict", "DESIGN.md §5 C02"),
 "C03": ("exploration", "runtime monitoring: message-sequence exploration of pair-verify at the endpoint (session state observed after every message) and on a real transport (plaintext / ciphertext probes); linearizability checking (porcupine) of recorded concurrent add / remove / pair-verify histories",
         "All sequences up to length 2 (quick) / 3 (thorough) over a 21-symbol alphabet plus random sequences, pairing sets of 0..3 controllers incl. a removed one, one or two connections; oracle: the session may become verified only by a finish that is genuine for the exchange opened by the last accepted start, every other message is answered with an error; full stack: plaintext still answered, ciphertext under peer-derived keys never served. Harness L: 40 (quick) / 1500 (thorough) rounds on fresh storage with pairings stored before the start, two administrator connections adding / replacing / removing pairings while four clients run complete pair-verifies, call/return times recorded at the client boundary, quiescent probe verifies at the end; the outcomes must be linearizable against a per-name register of the stored key (P-compositional, porcupine v1.3.0), schedules widened by delays at the storage.* hook points.",
         "trusted base: refctl; the monitor builds every message and knows which are genuine; porcupine; storage.* hooks only inject delay", "DESIGN.md §5 C03, §12.7"),
 "C14": ("exploration", "runtime monitoring: structural invariants over generated accessory compositions built twice, served JSON checked by an independent decoder",
         "Recipes (every accessory constructor, synthetic accessories from every service/characteristic constructor, linked/hidden/primary flags, explicit/automatic/colliding ids, up to 40 accessories) are built two or three times from scratch; ids unique, non-zero, deterministic; marshalled and served attribute database well-formed. Served size sweep: one database whose body takes every length of a contiguous range > 2*2048 bytes (all residues modulo the 2048-byte chunk and the 1024-byte frame).",
         "trusted base: encoding/json generic decoding, refctl for the served subset", "DESIGN.md §5 C14"),
 "C17": ("exploration", "runtime monitoring: differential testing of tlv8.Marshal against an independent reflect-based reference encoder, round-trip checking, decoder fuzzing under recover",
         "Boundary battery and random values of all 23 rtp message types and 26 synthetic structs covering every field kind; oracle: Unmarshal(Marshal(v)) == v, Marshal(v) == reference encoding, arbitrary bytes decode without panic; Unmarshal leaves its input unchanged, its result does not alias the input and is not changed by later calls; root-cause attribution by single-field isolation.",
         "trusted base: the reference encoder in monitors/c17/refenc.go (written from the stated conventions)", "DESIGN.md §5 C17"),
 "C09": ("exploration", "runtime monitoring: value-fidelity differential over the whole constructor catalog through a real transport (set->GET /characteristics and /accessories, PUT->typed getter and callback), answer-shape oracle",
         "Accessory databases built from all catalog constructors, from one accessory to a 150-accessory bridge (responses of hundreds of chunks and frames); values at bounds, non-rounding floats, hostile strings, tlv8 payloads to 5000 bytes; id lists of every length 1..60 with unknown, write-only and repeated ids; oracle: values equal after JSON/chunking/encryption, every id answered once in order with value or status, every entry of a 207 has a status and none carries a value together with an error status. Freshness phase: one change (application or a second controller) lands inside a GET /accessories of a 40-bulb bridge; reads that start after the change returned must show it through both endpoints.",
         "trusted base: refctl HTTP/chunk/frame parsing, encoding/json; PUT to an unknown id must not be answered as if applied (weak reading)", "DESIGN.md §5 C09"),
 "C11": ("exploration", "runtime monitoring: permission invariants over every catalog constructor and all 8 permission subsets x formats, in-process update API and HTTP PUT path, EVENT fences",
         "No pw => value unchanged and no callback for ~57 hostile values; no pr => no value stored or revealed in JSON, GET, /accessories, EVENT; no ev => subscription answered with a status and a fenced local change delivers no EVENT (ev spelled true, 1, 1.0, 'true', '1', [true]: the odd spellings may be ignored or refused, never followed by an EVENT); positive controls for ev/pw/pr characteristics.",
         "trusted base: refctl; permissions read literally from Perms, not through hc's helpers", "DESIGN.md §5 C11"),
 "C12": ("exploration", "runtime monitoring: type/range invariant checked after every update for hostile JSON-like value sequences over every catalog constructor and synthetic formats (every format x no / one-sided / two-sided bounds x steps that do not divide the range), in-process and through PUT",
         "88 hostile values (numbers of all magnitudes and signs, numeric and non-finite strings, bools, null, arrays, objects, repeated composites, Go-native ints/uints/float32) x local / remote / get-callback updates, pairs and random sequences; oracle after every update: Go type of the stored value matches the format, integer formats in range, within declared min/max, typed getter returns, attribute database encodes.",
         "panics are attributed by stack frames inside package characteristic; trusted base: refctl for the HTTP path", "DESIGN.md §5 C12"),
 "C20": ("exploration", "runtime monitoring: restart histories on one storage against a model (own structure fingerprint), exhaustive setup-code enumeration, independent setup-URI decoder",
         "Histories of 4..7 runs with value-only and 14 kinds of structural changes, pair / unpair / add-controller in between, in-process and child-process restarts; oracle: id, key pair and pairings stable, c# +1 iff the served database without values changed, c# == version file, sf == 1 iff no controller stored (re-checked after every pair/unpair without restart); ValidatePin on sampled (quick) / all 10^8 (thorough) codes and 20000 non-code strings; X-HM URI decoded independently for all categories x flags. Structure sweep: 3000 / 60000 distinct small structures through a six-run restart history without a started transport (content-dependent storage defects). Killed starts: a child process kills itself at the N-th storage.set.enter hook point of a start with changed / unchanged structure, followed by complete starts (c# moves by 1 or 2 after a change, not at all without one, then stays; device id constant).",
         "trusted base: refctl, VerifTXT hook (returns the live txt records), storage.set.enter hook (kill point)", "DESIGN.md §5 C20, §12.7"),
 "C10": ("exploration", "runtime monitoring: subscription-model checker over generated multi-connection histories with a fence after every operation (exact per-connection EVENT multisets), concurrent exactly-once variant, race detector",
         "3..5 verified controllers, 2..4 accessories, histories of 40 operations (subscribe, unsubscribe, local set, remote write changing / same value, combined PUT, value+ev in one entry for a read-only characteristic, idle (a change, then 90 s of virtual idle time, then every connection fenced), close FIN/RST, reconnect, join via /pairings); after every operation every live connection is fenced and the EVENTs received are compared with the model; closed connections checked through hc's debug log after bounded progress; concurrent writers on distinct characteristics with connection churn checked offline for exactly-once and under -race (reports filtered to notifyListener / session / context).",
         "trusted base: refctl; hc writes EVENTs synchronously inside the changing call (the fence argument of DESIGN §3.4)", "DESIGN.md §5 C10"),
 "C13": ("exploration", "runtime monitoring: hostile-message fuzzing per protocol state against real transports in child processes; oracle = captured net/http panic log + well-formed (error) response + honest continuation on the same and on a new connection",
         "Per case an honest prefix reaches one of six protocol states, then one hostile message of 63 classes (random bytes, structural TLV mutations of the correct next message, short / wrong-tag encrypted data, unknown steps / methods, hostile JSON, HTTP oddities, remote-address reuse) is sent; no panic line attributable to the request, a well-formed response that is an error when the message cannot be processed, and the state-appropriate honest handshake still succeeds on the same connection (at most one rejected start) and on a new one; 'no answer' by bounded progress; a dying child identifies its last logged input. Stored oddities: pairings with keys of 0..1000 bytes stored through /pairings, then pair-verify naming each. Class frame-size: a valid request sealed as one frame of 1025..65535 bytes (served or closed, never a panic). Idle periods: connections in five protocol states (one just notified) are used again after 90 s of virtual idle time (every deadline armed on an accepted connection moved into the past through the WrapConn hook).",
         "trusted base: refctl; net/http's own 400/431 answers count as well-formed; 405 demanded only on the three endpoints that dispatch on the method", "DESIGN.md §5 C13 and §12.6"),
}
NOT_YET = {
}
def main():
    checks = []
    for pid in sorted(CHECKS):
        cat, tech, text, note, ref = CHECKS[pid]
        checks.append({
            "property_id": pid,
            "quick_cmd": "./check %s quick" % pid,
            "thorough_cmd": "./check %s thorough" % pid,
            "evidence_file": "/verif/evidence/%s.json" % pid,
            "replay_cmd_template": "cat {path}",
            "engine": "monitors/%s" % pid.lower(),
            "level_claimed": {"category": cat, "text": text, "design_ref": ref},
            "level_note": note,
            "technique": tech,
        })
    na = [{"property_id": k, "reason": v} for k, v in sorted(NOT_YET.items()) if k not in CHECKS]
    m = {
        "version": 1,
        "setup_cmd": "./setup.sh",
        "hooks": {
            "guard": "verif",
            "enable": "go build -tags verif (the ./check script builds every monitor with it; /verif/go.mod replaces github.com/brutella/hc by /repo)",
            "baseline_off_cmd": "cd /repo && GOFLAGS=-mod=mod GOPROXY=off GOSUMDB=off go test -vet=off -count=1 ./...",
            "source_commits": hooks_commits,
            "add_only": True,
        },
        "engines": [
            {"name": "vf", "path": "vf/", "serves_properties": sorted(CHECKS), "kind_free_text": "monitor framework: seeds, coverage counters, violation signatures, known-findings classifier, evidence writer"},
            {"name": "refctl", "path": "refctl/", "serves_properties": ["C01","C02","C03","C04","C05","C06","C07","C08","C09","C10","C13","C16","C20"], "kind_free_text": "independent HAP controller (TLV8, SRP-6a, HKDF, session framing, HTTP/EVENT parser, pair-setup/verify clients, attacker toolkit); imports nothing from hc"},
            {"name": "harness", "path": "harness/", "serves_properties": sorted(CHECKS), "kind_free_text": "scripted net.Conn, app-side transport harness with log capture and storage snapshots, generated constructor catalog"},
        ],
        "checks": checks,
        "not_applicable": na,
        "notes": "Every check: ./check <id> quick|thorough rebuilds the monitor from /repo's working tree with -tags verif and runs it; exit 0 held, 1 violation (VIOLATION line), 2 inconclusive. known_findings.txt lists open/fixed findings.",
    }
    with open(os.path.join(ROOT, "MANIFEST.json"), "w") as f:
        json.dump(m, f, indent=1)
        f.write("\n")
if __name__ == "__main__":
    main()

#!/bin/bash
# usage: tools/mutpass.sh <ids-file> <out.jsonl>  (run from a snapshot of /verif: vp run -- tools/mutpass.sh ...)
cd "$(dirname "$0")/.."
export GOFLAGS=-mod=mod GOPROXY=off GOSUMDB=off GOTOOLCHAIN=local
./setup.sh > /dev/null 2>&1
mkdir -p .build/bin && go build -o .build/bin/mutate ./tools/mutate || exit 3
.build/bin/mutate -verif "$PWD" -workers 6 -only "$1" -out "$2"

#!/usr/bin/env python3
"""saveseed.py <name> <worktree> <caught-by comma list> <notes>: copy a confirmed seeded change into /verif/seeded/<name>/"""
import json, os, shutil, sys
name, wt, caught, notes = sys.argv[1:5]
dst = os.path.join('/verif/seeded', name)
shutil.rmtree(dst, ignore_errors=True)
os.makedirs(os.path.join(dst, 'demo'))
shutil.copy(os.path.join(wt, 'seed/patch.diff'), os.path.join(dst, 'patch.diff'))
for f in os.listdir(os.path.join(wt, 'seed/demo')):
    p = os.path.join(wt, 'seed/demo', f)
    if os.path.isfile(p):
        # demo test files are stored with a .txt suffix so that nothing ever compiles them in place
        t = f + '.txt' if f.endswith('.go') else f
        shutil.copy(p, os.path.join(dst, 'demo', t))
m = json.load(open(os.path.join(wt, 'seed/meta.json')))
m['confirmed_by_me'] = {
    'existing_suite_passes_with_change': True,
    'demo_fails_with_change': True,
    'demo_passes_without_change': True,
    'how': 'go build ./... && go test -vet=off -count=1 ./... in the worktree; demo run with the change and with the change stashed',
}
m['checks_run'] = 'VERIF_REPO=<worktree> ./check <id> quick'
m['caught_by'] = [c for c in caught.split(',') if c]
m['notes'] = notes
m['patch_applies_to_repo_head'] = os.system('git -C /repo apply --check %s >/dev/null 2>&1' % os.path.join(dst, 'patch.diff')) == 0
json.dump(m, open(os.path.join(dst, 'meta.json'), 'w'), indent=1)
print(name, 'saved; applies to HEAD:', m['patch_applies_to_repo_head'])

#!/usr/bin/env python3
"""Summarises .work/mutation/results.jsonl (output of tools/mutate): per file and overall counts, survivors listed."""
import json, sys, collections
args = [a for a in sys.argv[1:] if not a.startswith('--')]
path = args[0] if args else '/verif/.work/mutation/results.jsonl'
rows = {}
for l in open(path):
    try:
        r = json.loads(l)
    except Exception:
        continue
    rows[r['id']] = r   # later lines (re-runs) win
per = collections.defaultdict(collections.Counter)
tot = collections.Counter()
by_check = collections.Counter()
surv = []
for r in rows.values():
    v = r['verdict']
    k = v.split(':')[0]
    per[r['file']][k] += 1
    tot[k] += 1
    if v.startswith('killed-by:'):
        by_check[v.split(':')[1]] += 1
    if k in ('survived', 'inconclusive', 'hang-or-timeout'):
        surv.append(r)
cols = ['build-fail', 'killed-by-repo-tests', 'killed-by', 'survived', 'inconclusive', 'hang-or-timeout']
print('%-46s %5s | %s' % ('file', 'n', ' '.join('%9s' % c[:9] for c in cols)))
for f in sorted(per):
    c = per[f]
    print('%-46s %5d | %s' % (f, sum(c.values()), ' '.join('%9d' % c[x] for x in cols)))
print('%-46s %5d | %s' % ('TOTAL', sum(tot.values()), ' '.join('%9d' % tot[x] for x in cols)))
reached = tot['killed-by'] + tot['survived'] + tot['inconclusive'] + tot['hang-or-timeout']
if reached:
    print('\nmutants that compile and pass the repository suite: %d; killed by a check: %d (%.1f%%)' % (reached, tot['killed-by'], 100.0 * tot['killed-by'] / reached))
print('kills per check:', dict(by_check))
if '--survivors' in sys.argv:
    print('\nnot killed:')
    for r in sorted(surv, key=lambda r: r['id']):
        print('  %-58s %-16s %s   [%s]' % (r['id'], r['verdict'], r['detail'][:90], ','.join('%s=%d' % (c['check'], c['rc']) for c in r.get('checks', []))))

#!/bin/bash
# Run once after a fresh restore, offline: checks the toolchain and the reference controller's self-tests.
set -e
cd "$(dirname "$0")"
export GOFLAGS=-mod=mod GOPROXY=off GOSUMDB=off GOTOOLCHAIN=local
mkdir -p .build/bin .work evidence
# the reference controller must not depend on the code under test
if go list -deps ./refctl | grep -q 'github.com/brutella/hc'; then
  echo "refctl imports brutella/hc" >&2; exit 1
fi
go vet ./vf ./refctl
go test -count=1 ./refctl
go build -o .build/bin/gencatalog ./cmd/gencatalog
echo setup ok

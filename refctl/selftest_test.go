package refctl

import (
	"bytes"
	"crypto/sha256"
	"crypto/sha512"
	"encoding/hex"
	"io"
	"math/big"
	"math/rand"
	"testing"

	xhkdf "golang.org/x/crypto/hkdf"
)

func unhex(s string) []byte { b, _ := hex.DecodeString(s); return b }

func TestHKDFRFC5869A1(t *testing.T) {
	ikm := unhex("0b0b0b0b0b0b0b0b0b0b0b0b0b0b0b0b0b0b0b0b0b0b")
	salt := unhex("000102030405060708090a0b0c")
	info := unhex("f0f1f2f3f4f5f6f7f8f9")
	want := unhex("3cb25f25faacd57a90434f64d0362f2a2d2d0a90cf1a5a4c5db02d56ecc4c5bf34007208d5b887185865")
	if got := HKDF(sha256.New, ikm, salt, info, 42); !bytes.Equal(got, want) {
		t.Fatalf("RFC 5869 A.1: %x", got)
	}
}

func TestHKDFDifferential(t *testing.T) {
	r := rand.New(rand.NewSource(7))
	for i := 0; i < 300; i++ {
		ikm := make([]byte, r.Intn(100))
		salt := make([]byte, 1+r.Intn(40))
		info := make([]byte, r.Intn(40))
		r.Read(ikm)
		r.Read(salt)
		r.Read(info)
		n := 1 + r.Intn(200)
		want := make([]byte, n)
		io.ReadFull(xhkdf.New(sha512.New, ikm, salt, info), want)
		if got := HKDF(sha512.New, ikm, salt, info, n); !bytes.Equal(got, want) {
			t.Fatalf("case %d differs", i)
		}
	}
}

func TestPrime(t *testing.T) {
	N := SRPPrime()
	if N.BitLen() != 3072 {
		t.Fatalf("bitlen %d", N.BitLen())
	}
	// known head and tail of the RFC 3526 3072-bit group
	h := hex.EncodeToString(N.Bytes())
	if h[:32] != "ffffffffffffffffc90fdaa22168c234" || h[len(h)-32:] != "4b82d120a93ad2caffffffffffffffff" {
		t.Fatalf("prime head/tail %s...%s", h[:32], h[len(h)-32:])
	}
	if !N.ProbablyPrime(8) {
		t.Fatal("N is not prime")
	}
	q := new(big.Int).Rsh(N, 1)
	if !q.ProbablyPrime(8) {
		t.Fatal("(N-1)/2 is not prime")
	}
}

func TestSRPAgreement(t *testing.T) {
	r := rand.New(rand.NewSource(11))
	for i := 0; i < 12; i++ {
		code := "123-45-678"
		srv := NewSRPServer(code, r)
		cl := NewSRPClient(r)
		if err := cl.Compute(srv.Salt, srv.PublicKey(), code); err != nil {
			t.Fatal(err)
		}
		m2, ok := srv.Verify(cl.Abytes, cl.M1)
		if !ok || !cl.CheckM2(m2) || !bytes.Equal(cl.K, srv.K) {
			t.Fatalf("case %d: agreement failed", i)
		}
		bad := NewSRPClient(r)
		bad.Compute(srv.Salt, srv.PublicKey(), "123-45-679")
		if _, ok := srv.Verify(bad.Abytes, bad.M1); ok {
			t.Fatal("wrong code accepted")
		}
	}
}

func TestAEADVector(t *testing.T) {
	// RFC 8439 section 2.8.2, adapted: HAP's layout is 4 zero bytes + 8 byte nonce, so the vector's
	// nonce 07000000 4041424344454647 cannot be expressed; check instead that Seal/Open agree with
	// x/crypto under the layout and that AAD and nonce matter.
	var key [32]byte
	for i := range key {
		key[i] = byte(0x80 + i)
	}
	ct := Seal(key, []byte("PS-Msg05"), []byte("hello"), nil)
	if p, err := Open(key, []byte("PS-Msg05"), ct, nil); err != nil || string(p) != "hello" {
		t.Fatal("roundtrip")
	}
	if _, err := Open(key, []byte("PS-Msg06"), ct, nil); err == nil {
		t.Fatal("nonce ignored")
	}
	if _, err := Open(key, []byte("PS-Msg05"), ct, []byte{1}); err == nil {
		t.Fatal("aad ignored")
	}
}

func TestFraming(t *testing.T) {
	r := rand.New(rand.NewSource(5))
	var k [32]byte
	r.Read(k[:])
	for i := 0; i < 200; i++ {
		w := Framer{Key: k}
		rd := Framer{Key: k}
		var all, ct []byte
		for m := 0; m < 1+r.Intn(4); m++ {
			p := make([]byte, r.Intn(3000))
			r.Read(p)
			var sizes []int
			if r.Intn(2) == 0 {
				for j := 0; j < 10; j++ {
					sizes = append(sizes, 1+r.Intn(1024))
				}
			}
			all = append(all, p...)
			ct = append(ct, w.SealFrames(p, sizes)...)
		}
		got, err := rd.OpenAll(ct)
		if err != nil || !bytes.Equal(got, all) {
			t.Fatalf("case %d: %v", i, err)
		}
	}
}

func TestTLV(t *testing.T) {
	r := rand.New(rand.NewSource(3))
	for i := 0; i < 300; i++ {
		v := make([]byte, r.Intn(1200))
		r.Read(v)
		e := &Enc{}
		e.Byte(TagState, 3).Bytes(TagPublicKey, v).Byte(TagError, 2)
		tl, err := ParseTLV(e.B)
		if err != nil {
			t.Fatal(err)
		}
		got, _ := tl.Get(TagPublicKey)
		if !bytes.Equal(got, v) {
			t.Fatalf("len %d", len(v))
		}
		if b, _ := tl.Byte(TagError); b != 2 {
			t.Fatal("err tag")
		}
	}
}

func TestMessageParser(t *testing.T) {
	raw := "HTTP/1.1 200 OK\r\nContent-Type: application/hap+json\r\nTransfer-Encoding: chunked\r\n\r\n5\r\nhello\r\n3\r\n wo\r\n0\r\n\r\n" +
		"EVENT/1.0 200 OK\r\nContent-Type: application/hap+json\r\nContent-Length: 2\r\n\r\n{}" +
		"HTTP/1.1 204 No Content\r\n\r\n"
	ms, err := ParseMessages([]byte(raw))
	if err != nil || len(ms) != 3 {
		t.Fatalf("%v %d", err, len(ms))
	}
	if string(ms[0].Body) != "hello wo" || ms[0].Chunks != 2 || !ms[1].IsEvent() || string(ms[1].Body) != "{}" || ms[2].Status != 204 {
		t.Fatalf("%+v", ms)
	}
}

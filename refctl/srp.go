package refctl

import (
	"bytes"
	"crypto/rand"
	"crypto/sha512"
	"errors"
	"io"
	"math/big"
	"sync"
)

// The SRP group of HAP is the 3072-bit group of RFC 5054, which is the 3072-bit
// MODP group of RFC 3526: N = 2^3072 - 2^3008 - 1 + 2^64 * ([2^2942 pi] + 1690314), g = 5.
// N is recomputed from that formula, not copied from any library.

var (
	srpOnce sync.Once
	srpN    *big.Int
	srpG    = big.NewInt(5)
)

// piFloor returns floor(2^bits * pi) using Machin's formula in fixed point.
func piFloor(bits uint) *big.Int {
	guard := uint(64)
	one := new(big.Int).Lsh(big.NewInt(1), bits+guard)
	arctanInv := func(x int64) *big.Int {
		// arctan(1/x) = sum (-1)^k / ((2k+1) x^(2k+1))
		bx := big.NewInt(x)
		x2 := big.NewInt(x * x)
		term := new(big.Int).Div(one, bx)
		sum := new(big.Int).Set(term)
		for k := int64(1); term.Sign() != 0; k++ {
			term.Div(term, x2)
			t := new(big.Int).Div(term, big.NewInt(2*k+1))
			if k%2 == 1 {
				sum.Sub(sum, t)
			} else {
				sum.Add(sum, t)
			}
		}
		return sum
	}
	pi := new(big.Int).Mul(arctanInv(5), big.NewInt(16))
	pi.Sub(pi, new(big.Int).Mul(arctanInv(239), big.NewInt(4)))
	return pi.Rsh(pi, guard)
}

// SRPPrime returns N of the 3072-bit group.
func SRPPrime() *big.Int {
	srpOnce.Do(func() {
		n := new(big.Int).Lsh(big.NewInt(1), 3072)
		n.Sub(n, new(big.Int).Lsh(big.NewInt(1), 3008))
		n.Sub(n, big.NewInt(1))
		t := piFloor(2942)
		t.Add(t, big.NewInt(1690314))
		t.Lsh(t, 64)
		n.Add(n, t)
		srpN = n
	})
	return srpN
}

func pad384(x *big.Int) []byte {
	b := x.Bytes()
	if len(b) >= 384 {
		return b
	}
	out := make([]byte, 384)
	copy(out[384-len(b):], b)
	return out
}

func h512(parts ...[]byte) []byte {
	h := sha512.New()
	for _, p := range parts {
		h.Write(p)
	}
	return h.Sum(nil)
}

// SRPUser is the identity HAP uses for pair-setup.
const SRPUser = "Pair-Setup"

func srpX(salt []byte, password string) *big.Int {
	inner := h512([]byte(SRPUser), []byte(":"), []byte(password))
	return new(big.Int).SetBytes(h512(salt, inner))
}

func srpK() *big.Int {
	return new(big.Int).SetBytes(h512(SRPPrime().Bytes(), pad384(srpG)))
}

// SRPClient is an SRP-6a client (SHA-512, 3072-bit group).
type SRPClient struct {
	a, A   *big.Int
	Abytes []byte // A as sent
	Salt   []byte
	B      []byte // B as received
	S      []byte // premaster secret
	K      []byte // session key H(S)
	M1     []byte
}

// NewSRPClient draws a; A is guaranteed to have no leading zero byte so that every
// convention (padded / minimal) encodes it identically.
func NewSRPClient(rnd io.Reader) *SRPClient {
	if rnd == nil {
		rnd = rand.Reader
	}
	N := SRPPrime()
	for {
		buf := make([]byte, 32)
		io.ReadFull(rnd, buf)
		a := new(big.Int).SetBytes(buf)
		if a.Sign() == 0 {
			continue
		}
		A := new(big.Int).Exp(srpG, a, N)
		if len(A.Bytes()) != 384 {
			continue
		}
		return &SRPClient{a: a, A: A, Abytes: A.Bytes()}
	}
}

// Compute derives S, K and M1 from the server's salt and B for a password (the setup code XXX-XX-XXX).
func (c *SRPClient) Compute(salt, B []byte, password string) error {
	N := SRPPrime()
	bB := new(big.Int).SetBytes(B)
	if len(B) > 384 || new(big.Int).Mod(bB, N).Sign() == 0 {
		return errors.New("srp: invalid B")
	}
	c.Salt, c.B = salt, B
	u := new(big.Int).SetBytes(h512(pad384(c.A), pad384(bB)))
	if u.Sign() == 0 {
		return errors.New("srp: u == 0")
	}
	x := srpX(salt, password)
	k := srpK()
	// S = (B - k g^x)^(a + u x)
	gx := new(big.Int).Exp(srpG, x, N)
	base := new(big.Int).Mul(k, gx)
	base.Mod(base, N)
	base.Sub(bB, base)
	base.Mod(base, N)
	exp := new(big.Int).Mul(u, x)
	exp.Add(exp, c.a)
	S := new(big.Int).Exp(base, exp, N)
	c.S = S.Bytes()
	c.K = h512(c.S)
	hn := h512(N.Bytes())
	hg := h512(srpG.Bytes())
	x0 := make([]byte, len(hn))
	for i := range hn {
		x0[i] = hn[i] ^ hg[i]
	}
	c.M1 = h512(x0, h512([]byte(SRPUser)), salt, c.Abytes, B, c.K)
	return nil
}

// CheckM2 verifies the server proof H(A | M1 | K).
func (c *SRPClient) CheckM2(m2 []byte) bool {
	return bytes.Equal(m2, h512(c.Abytes, c.M1, c.K))
}

// SRPServer is a reference server used only by the self-tests of this package.
type SRPServer struct {
	b, B, v *big.Int
	Salt    []byte
	K       []byte
}

func NewSRPServer(password string, rnd io.Reader) *SRPServer {
	if rnd == nil {
		rnd = rand.Reader
	}
	N := SRPPrime()
	salt := make([]byte, 16)
	io.ReadFull(rnd, salt)
	x := srpX(salt, password)
	v := new(big.Int).Exp(srpG, x, N)
	buf := make([]byte, 32)
	io.ReadFull(rnd, buf)
	b := new(big.Int).SetBytes(buf)
	B := new(big.Int).Mul(srpK(), v)
	B.Add(B, new(big.Int).Exp(srpG, b, N))
	B.Mod(B, N)
	return &SRPServer{b: b, B: B, v: v, Salt: salt}
}

func (s *SRPServer) PublicKey() []byte { return s.B.Bytes() }

// Verify checks M1 for A and returns M2.
func (s *SRPServer) Verify(A, m1 []byte) ([]byte, bool) {
	N := SRPPrime()
	bA := new(big.Int).SetBytes(A)
	if new(big.Int).Mod(bA, N).Sign() == 0 {
		return nil, false
	}
	u := new(big.Int).SetBytes(h512(pad384(bA), pad384(s.B)))
	S := new(big.Int).Exp(s.v, u, N)
	S.Mul(S, bA)
	S.Mod(S, N)
	S.Exp(S, s.b, N)
	s.K = h512(S.Bytes())
	hn := h512(N.Bytes())
	hg := h512(srpG.Bytes())
	x0 := make([]byte, len(hn))
	for i := range hn {
		x0[i] = hn[i] ^ hg[i]
	}
	want := h512(x0, h512([]byte(SRPUser)), s.Salt, A, s.B.Bytes(), s.K)
	if !bytes.Equal(want, m1) {
		return nil, false
	}
	return h512(A, m1, s.K), true
}

// ProofM1 computes the SRP client proof H(H(N) xor H(g) | H(I) | s | A | B | K) for arbitrary inputs
// (the attacker toolkit uses it with K = "" or other keys a peer without the setup code can know).
func ProofM1(salt, A, B, K []byte) []byte {
	hn := h512(SRPPrime().Bytes())
	hg := h512(srpG.Bytes())
	x0 := make([]byte, len(hn))
	for i := range hn {
		x0[i] = hn[i] ^ hg[i]
	}
	return h512(x0, h512([]byte(SRPUser)), salt, A, B, K)
}

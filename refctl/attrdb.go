package refctl

import (
	"encoding/json"
	"fmt"
)

// AttrDB is the attribute database as served by GET /accessories.
type AttrDB struct {
	Accessories []AttrAccessory `json:"accessories"`
}

type AttrAccessory struct {
	AID      uint64        `json:"aid"`
	Services []AttrService `json:"services"`
}

type AttrService struct {
	IID             uint64     `json:"iid"`
	Type            string     `json:"type"`
	Characteristics []AttrChar `json:"characteristics"`
	Hidden          *bool      `json:"hidden,omitempty"`
	Primary         *bool      `json:"primary,omitempty"`
	Linked          []uint64   `json:"linked,omitempty"`
}

type AttrChar struct {
	IID      uint64          `json:"iid"`
	Type     string          `json:"type"`
	Perms    []string        `json:"perms"`
	Format   string          `json:"format"`
	Value    json.RawMessage `json:"value,omitempty"`
	Unit     string          `json:"unit,omitempty"`
	MaxValue json.RawMessage `json:"maxValue,omitempty"`
	MinValue json.RawMessage `json:"minValue,omitempty"`
	MinStep  json.RawMessage `json:"minStep,omitempty"`
	MaxLen   json.RawMessage `json:"maxLen,omitempty"`
}

func ParseAttrDB(b []byte) (*AttrDB, error) {
	var db AttrDB
	if err := json.Unmarshal(b, &db); err != nil {
		return nil, err
	}
	return &db, nil
}

// Find returns the first characteristic of the given type in accessory aid (0 = any).
func (db *AttrDB) Find(aid uint64, typ string) (uint64, *AttrChar) {
	for i := range db.Accessories {
		a := &db.Accessories[i]
		if aid != 0 && a.AID != aid {
			continue
		}
		for j := range a.Services {
			for k := range a.Services[j].Characteristics {
				c := &a.Services[j].Characteristics[k]
				if c.Type == typ {
					return a.AID, c
				}
			}
		}
	}
	return 0, nil
}

func (c *AttrChar) Has(perm string) bool {
	for _, p := range c.Perms {
		if p == perm {
			return true
		}
	}
	return false
}

// CharValue is one entry of a /characteristics response or request.
type CharValue struct {
	AID    uint64           `json:"aid"`
	IID    uint64           `json:"iid"`
	Value  *json.RawMessage `json:"value,omitempty"`
	Status *int             `json:"status,omitempty"`
	Ev     *bool            `json:"ev,omitempty"`
}

type CharList struct {
	Characteristics []CharValue `json:"characteristics"`
}

// PutBody renders a PUT /characteristics body.
func PutBody(entries ...CharValue) []byte {
	b, _ := json.Marshal(CharList{entries})
	return b
}

func RawJSON(v interface{}) *json.RawMessage {
	b, err := json.Marshal(v)
	if err != nil {
		panic(err)
	}
	r := json.RawMessage(b)
	return &r
}

func IDList(ids ...[2]uint64) string {
	s := ""
	for i, id := range ids {
		if i > 0 {
			s += ","
		}
		s += fmt.Sprintf("%d.%d", id[0], id[1])
	}
	return s
}

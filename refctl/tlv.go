// Package refctl is an independent HomeKit controller written from the HAP
// specification and the RFCs.  It imports nothing from github.com/brutella/hc.
package refctl

import (
	"errors"
)

// TLV8 tags of the pairing protocol (HAP specification, table 5-6).
const (
	TagMethod        = 0x00
	TagIdentifier    = 0x01
	TagSalt          = 0x02
	TagPublicKey     = 0x03
	TagProof         = 0x04
	TagEncryptedData = 0x05
	TagState         = 0x06
	TagError         = 0x07
	TagRetryDelay    = 0x08
	TagCertificate   = 0x09
	TagSignature     = 0x0A
	TagPermissions   = 0x0B
	TagFragmentData  = 0x0C
	TagFragmentLast  = 0x0D
	TagSeparator     = 0xFF
)

// Item is one raw TLV8 item as it appears on the wire.
type Item struct {
	Tag byte
	Val []byte
}

// ParseItems splits b into raw items; it fails on a truncated item.
func ParseItems(b []byte) ([]Item, error) {
	var out []Item
	for i := 0; i < len(b); {
		if i+2 > len(b) {
			return nil, errors.New("tlv8: truncated header")
		}
		t, l := b[i], int(b[i+1])
		i += 2
		if i+l > len(b) {
			return nil, errors.New("tlv8: truncated value")
		}
		out = append(out, Item{t, append([]byte(nil), b[i:i+l]...)})
		i += l
	}
	return out, nil
}

// TLV is a parsed message: values per tag, fragments merged.
type TLV struct {
	Items []Item // merged: consecutive items of one tag are concatenated
	Raw   []Item
}

// ParseTLV parses and merges consecutive items with the same tag (fragments).
func ParseTLV(b []byte) (*TLV, error) {
	raw, err := ParseItems(b)
	if err != nil {
		return nil, err
	}
	t := &TLV{Raw: raw}
	for i, it := range raw {
		if i > 0 && raw[i-1].Tag == it.Tag && len(t.Items) > 0 {
			last := &t.Items[len(t.Items)-1]
			last.Val = append(last.Val, it.Val...)
			continue
		}
		t.Items = append(t.Items, Item{it.Tag, append([]byte(nil), it.Val...)})
	}
	return t, nil
}

// Get returns the first (merged) value of a tag.
func (t *TLV) Get(tag byte) ([]byte, bool) {
	for _, it := range t.Items {
		if it.Tag == tag {
			return it.Val, true
		}
	}
	return nil, false
}

// GetAll returns the concatenation of all values of a tag (what a lenient parser yields).
func (t *TLV) GetAll(tag byte) []byte {
	var out []byte
	for _, it := range t.Raw {
		if it.Tag == tag {
			out = append(out, it.Val...)
		}
	}
	return out
}

// Byte returns the first byte of the first value of a tag (0,false when absent or empty).
func (t *TLV) Byte(tag byte) (byte, bool) {
	v, ok := t.Get(tag)
	if !ok || len(v) == 0 {
		return 0, false
	}
	return v[0], true
}

// Enc builds TLV8 messages with 255-byte fragmentation.
type Enc struct{ B []byte }

func (e *Enc) Bytes(tag byte, v []byte) *Enc {
	if len(v) == 0 {
		e.B = append(e.B, tag, 0)
		return e
	}
	for len(v) > 0 {
		n := len(v)
		if n > 255 {
			n = 255
		}
		e.B = append(e.B, tag, byte(n))
		e.B = append(e.B, v[:n]...)
		v = v[n:]
	}
	return e
}

func (e *Enc) Byte(tag byte, v byte) *Enc { return e.Bytes(tag, []byte{v}) }

// RawItem appends one item as is (length must be <= 255): used for malformed messages.
func (e *Enc) RawItem(tag byte, v []byte) *Enc {
	e.B = append(e.B, tag, byte(len(v)))
	e.B = append(e.B, v...)
	return e
}

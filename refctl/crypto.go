package refctl

import (
	"crypto/hmac"
	"crypto/sha512"
	"encoding/binary"
	"errors"
	"hash"

	"golang.org/x/crypto/chacha20poly1305"
)

// HKDF implements RFC 5869 (extract-then-expand) for any hash.
func HKDF(h func() hash.Hash, ikm, salt, info []byte, n int) []byte {
	if salt == nil {
		salt = make([]byte, h().Size())
	}
	ext := hmac.New(h, salt)
	ext.Write(ikm)
	prk := ext.Sum(nil)
	var out, t []byte
	for i := byte(1); len(out) < n; i++ {
		m := hmac.New(h, prk)
		m.Write(t)
		m.Write(info)
		m.Write([]byte{i})
		t = m.Sum(nil)
		out = append(out, t...)
	}
	return out[:n]
}

// HKDF512 is HKDF-SHA-512 with a 32 byte output, as HAP uses it everywhere.
func HKDF512(ikm []byte, salt, info string) [32]byte {
	var k [32]byte
	copy(k[:], HKDF(sha512.New, ikm, []byte(salt), []byte(info), 32))
	return k
}

func nonce12(n8 []byte) []byte {
	var n [12]byte
	copy(n[4:], n8)
	return n[:]
}

// Seal is ChaCha20-Poly1305 (IETF) with HAP's nonce layout: 4 zero bytes then the 8 byte nonce.
func Seal(key [32]byte, nonce8 []byte, plain, aad []byte) []byte {
	a, err := chacha20poly1305.New(key[:])
	if err != nil {
		panic(err)
	}
	return a.Seal(nil, nonce12(nonce8), plain, aad)
}

// Open is the inverse of Seal; data is ciphertext followed by the 16 byte tag.
func Open(key [32]byte, nonce8 []byte, data, aad []byte) ([]byte, error) {
	if len(data) < 16 {
		return nil, errors.New("refctl: data shorter than an auth tag")
	}
	a, err := chacha20poly1305.New(key[:])
	if err != nil {
		return nil, err
	}
	return a.Open(nil, nonce12(nonce8), data, aad)
}

func counterNonce(c uint64) []byte {
	var n [8]byte
	binary.LittleEndian.PutUint64(n[:], c)
	return n[:]
}

// FrameMax is the maximum number of plaintext bytes in one frame of the session layer.
const FrameMax = 1024

// Framer is one direction of the HAP session layer: frames of
// len16le | ciphertext | tag16, AAD = the two length bytes, nonce = 64-bit LE counter from 0.
type Framer struct {
	Key   [32]byte
	Count uint64
}

// SessionKeys derives the controller's (write, read) keys from the pair-verify shared secret.
// Controller-to-accessory data is sealed under "Control-Write-Encryption-Key".
func SessionKeys(shared []byte) (c2a, a2c [32]byte) {
	c2a = HKDF512(shared, "Control-Salt", "Control-Write-Encryption-Key")
	a2c = HKDF512(shared, "Control-Salt", "Control-Read-Encryption-Key")
	return
}

// SealFrames frames p according to sizes (each <= 1024); nil sizes means maximum-size frames.
func (f *Framer) SealFrames(p []byte, sizes []int) []byte {
	var out []byte
	i := 0
	for len(p) > 0 {
		n := FrameMax
		if i < len(sizes) && sizes[i] > 0 && sizes[i] <= FrameMax {
			n = sizes[i]
		}
		i++
		if n > len(p) {
			n = len(p)
		}
		out = append(out, f.SealFrame(p[:n])...)
		p = p[n:]
	}
	return out
}

// SealFrame seals exactly one frame (len(p) <= 65535, normally <= 1024).
func (f *Framer) SealFrame(p []byte) []byte {
	var l [2]byte
	binary.LittleEndian.PutUint16(l[:], uint16(len(p)))
	ct := Seal(f.Key, counterNonce(f.Count), p, l[:])
	f.Count++
	return append(l[:], ct...)
}

// ErrNeedMore is returned by OpenFrame when the buffer does not hold a complete frame.
var ErrNeedMore = errors.New("refctl: incomplete frame")

// OpenFrame decrypts the first frame of buf and returns (plaintext, bytes consumed).
func (f *Framer) OpenFrame(buf []byte) ([]byte, int, error) {
	if len(buf) < 2 {
		return nil, 0, ErrNeedMore
	}
	n := int(binary.LittleEndian.Uint16(buf[:2]))
	if len(buf) < 2+n+16 {
		return nil, 0, ErrNeedMore
	}
	p, err := Open(f.Key, counterNonce(f.Count), buf[2:2+n+16], buf[:2])
	if err != nil {
		return nil, 0, err
	}
	f.Count++
	return p, 2 + n + 16, nil
}

// OpenAll decrypts a whole stream of frames.
func (f *Framer) OpenAll(buf []byte) ([]byte, error) {
	var out []byte
	for len(buf) > 0 {
		p, n, err := f.OpenFrame(buf)
		if err != nil {
			return out, err
		}
		out = append(out, p...)
		buf = buf[n:]
	}
	return out, nil
}

// SplitFrames cuts a ciphertext stream into its frames without decrypting.
func SplitFrames(buf []byte) ([][]byte, error) {
	var out [][]byte
	for len(buf) > 0 {
		if len(buf) < 2 {
			return out, ErrNeedMore
		}
		n := int(binary.LittleEndian.Uint16(buf[:2]))
		if len(buf) < 2+n+16 {
			return out, ErrNeedMore
		}
		out = append(out, buf[:2+n+16])
		buf = buf[2+n+16:]
	}
	return out, nil
}

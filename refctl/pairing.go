package refctl

import (
	"bytes"
	"crypto/ed25519"
	"crypto/rand"
	"fmt"
	"io"

	"golang.org/x/crypto/curve25519"
)

const ContentTLV8 = "application/pairing+tlv8"
const ContentJSON = "application/hap+json"

// Identity is a controller's pairing identity.
type Identity struct {
	ID   string
	LTPK ed25519.PublicKey
	LTSK ed25519.PrivateKey
}

// NewIdentity draws a key pair from rnd (crypto/rand when nil).
func NewIdentity(id string, rnd io.Reader) *Identity {
	if rnd == nil {
		rnd = rand.Reader
	}
	seed := make([]byte, 32)
	io.ReadFull(rnd, seed)
	sk := ed25519.NewKeyFromSeed(seed)
	return &Identity{ID: id, LTSK: sk, LTPK: sk.Public().(ed25519.PublicKey)}
}

// StageError says at which step of a handshake the accessory deviated from the specification.
type StageError struct {
	Stage string // e.g. "setup.M2", "setup.M4.proof", "verify.M2.signature"
	Why   string
	// Transport is set when the failure is a transport problem (timeout, closed connection).
	Transport error
}

func (e *StageError) Error() string {
	if e.Transport != nil {
		return fmt.Sprintf("%s: %s: %v", e.Stage, e.Why, e.Transport)
	}
	return e.Stage + ": " + e.Why
}

func stageErr(stage, format string, a ...interface{}) *StageError {
	return &StageError{Stage: stage, Why: fmt.Sprintf(format, a...)}
}

// StyleTLV re-arranges a TLV8 message the way another conformant implementation might write it: the order of
// the items is free (fragments of one value stay together and in order) and unknown item types must be ignored
// by the receiver ("shuffled", "extra-items", "both"; "" leaves the message alone).
func (c *Conn) StyleTLV(b []byte) []byte {
	if c.TLVStyle == "" || c.StyleRand == nil {
		return b
	}
	items, err := ParseItems(b)
	if err != nil {
		return b
	}
	var groups [][]Item
	for i, it := range items {
		if i > 0 && items[i-1].Tag == it.Tag && len(items[i-1].Val) == 255 {
			groups[len(groups)-1] = append(groups[len(groups)-1], it)
			continue
		}
		groups = append(groups, []Item{it})
	}
	if c.TLVStyle == "extra-items" || c.TLVStyle == "both" {
		flags := make([]byte, 4)
		c.StyleRand.Read(flags)
		groups = append(groups, []Item{{Tag: 0x13, Val: flags}}) // kTLVType_Flags, sent by newer controllers
		if c.StyleRand.Intn(2) == 0 {
			groups = append(groups, []Item{{Tag: 0xF0, Val: []byte("vendor")}})
		}
	}
	if c.TLVStyle == "shuffled" || c.TLVStyle == "both" {
		c.StyleRand.Shuffle(len(groups), func(i, j int) { groups[i], groups[j] = groups[j], groups[i] })
		// two groups of the same tag must not become adjacent (they would merge): undo such a neighbourhood
		for i := 1; i < len(groups); i++ {
			if groups[i][0].Tag == groups[i-1][0].Tag {
				return b
			}
		}
	}
	e := &Enc{}
	for _, g := range groups {
		for _, it := range g {
			e.RawItem(it.Tag, it.Val)
		}
	}
	return e.B
}

// PostTLV posts a TLV8 body and parses the TLV8 answer.
func (c *Conn) PostTLV(path string, body []byte) (*Message, *TLV, error) {
	body = c.StyleTLV(body)
	m, err := c.Do("POST", path, ContentTLV8, body)
	if err != nil {
		return nil, nil, err
	}
	t, err := ParseTLV(m.Body)
	if err != nil {
		return m, nil, err
	}
	return m, t, nil
}

// ---------------------------------------------------------------- pair-setup

// Setup holds the state of one pair-setup exchange on the controller side.
type Setup struct {
	Me   *Identity
	Code string // XXX-XX-XXX
	Srp  *SRPClient

	Salt, B []byte
	EncKey  [32]byte // HKDF(K, "Pair-Setup-Encrypt-Salt", "Pair-Setup-Encrypt-Info")

	// learnt from M6
	AccessoryID   string
	AccessoryLTPK []byte
	M6StateBytes  []byte
}

func SetupM1() []byte {
	e := &Enc{}
	return e.Byte(TagState, 1).Byte(TagMethod, 0).B
}

func SetupM3(A, proof []byte) []byte {
	e := &Enc{}
	return e.Byte(TagState, 3).Bytes(TagPublicKey, A).Bytes(TagProof, proof).B
}

// SetupEncKey derives the pair-setup session key from the SRP key K.
func SetupEncKey(K []byte) [32]byte {
	return HKDF512(K, "Pair-Setup-Encrypt-Salt", "Pair-Setup-Encrypt-Info")
}

// SetupM5Plain builds the sub-TLV of M5 (identifier, LTPK, signature) for SRP key K.
func SetupM5Plain(K []byte, id string, ltpk []byte, sk ed25519.PrivateKey) []byte {
	x := HKDF512(K, "Pair-Setup-Controller-Sign-Salt", "Pair-Setup-Controller-Sign-Info")
	info := append(append(append([]byte{}, x[:]...), []byte(id)...), ltpk...)
	sig := ed25519.Sign(sk, info)
	e := &Enc{}
	return e.Bytes(TagIdentifier, []byte(id)).Bytes(TagPublicKey, ltpk).Bytes(TagSignature, sig).B
}

// SetupM5 seals sub under key and wraps it into the M5 message.
func SetupM5(key [32]byte, sub []byte) []byte {
	e := &Enc{}
	return e.Byte(TagState, 5).Bytes(TagEncryptedData, Seal(key, []byte("PS-Msg05"), sub, nil)).B
}

// SetupM5Raw wraps arbitrary bytes as encrypted data of an M5 message.
func SetupM5Raw(data []byte) []byte {
	e := &Enc{}
	return e.Byte(TagState, 5).Bytes(TagEncryptedData, data).B
}

// StartSetup sends M1 and checks M2.
func (c *Conn) StartSetup(me *Identity, code string, rnd io.Reader) (*Setup, error) {
	s := &Setup{Me: me, Code: code}
	m, t, err := c.PostTLV("/pair-setup", SetupM1())
	if err != nil {
		return s, &StageError{Stage: "setup.M2", Why: "no well-formed answer to M1", Transport: err}
	}
	if m.Status != 200 {
		return s, stageErr("setup.M2", "HTTP status %d", m.Status)
	}
	if st, _ := t.Byte(TagState); st != 2 {
		return s, stageErr("setup.M2", "state %d, want 2", st)
	}
	if e, ok := t.Byte(TagError); ok {
		return s, stageErr("setup.M2.error", "error %d", e)
	}
	s.Salt, _ = t.Get(TagSalt)
	s.B, _ = t.Get(TagPublicKey)
	if len(s.Salt) != 16 {
		return s, stageErr("setup.M2.salt", "salt of %d bytes, want 16", len(s.Salt))
	}
	if len(s.B) == 0 || len(s.B) > 384 {
		return s, stageErr("setup.M2.B", "public key of %d bytes", len(s.B))
	}
	if ct := m.Header.Get("Content-Type"); ct != ContentTLV8 {
		return s, stageErr("setup.M2.content-type", "content type %q", ct)
	}
	s.Srp = NewSRPClient(rnd)
	if err := s.Srp.Compute(s.Salt, s.B, code); err != nil {
		return s, stageErr("setup.M2.B", "%v", err)
	}
	s.EncKey = SetupEncKey(s.Srp.K)
	return s, nil
}

// ErrAuth is the stage reported when the accessory answers M3 with kTLVError_Authentication.
const StageAuthRefused = "setup.M4.auth-refused"

// Verify sends M3 and checks M4 (server proof).
func (c *Conn) SetupVerify(s *Setup) error {
	m, t, err := c.PostTLV("/pair-setup", SetupM3(s.Srp.Abytes, s.Srp.M1))
	if err != nil {
		return &StageError{Stage: "setup.M4", Why: "no well-formed answer to M3", Transport: err}
	}
	if m.Status != 200 {
		return stageErr("setup.M4", "HTTP status %d", m.Status)
	}
	if st, _ := t.Byte(TagState); st != 4 {
		return stageErr("setup.M4", "state %d, want 4", st)
	}
	if e, ok := t.Byte(TagError); ok {
		if e == 2 {
			if _, has := t.Get(TagProof); has {
				return stageErr("setup.M4.error-with-proof", "authentication error together with a proof")
			}
			return stageErr(StageAuthRefused, "error 2")
		}
		return stageErr("setup.M4.error", "error %d", e)
	}
	p, _ := t.Get(TagProof)
	if !s.Srp.CheckM2(p) {
		return stageErr("setup.M4.proof", "server proof does not verify (%d bytes)", len(p))
	}
	return nil
}

// Exchange sends M5 and verifies M6 completely.
func (c *Conn) SetupExchange(s *Setup) error {
	sub := c.StyleTLV(SetupM5Plain(s.Srp.K, s.Me.ID, s.Me.LTPK, s.Me.LTSK))
	m, t, err := c.PostTLV("/pair-setup", SetupM5(s.EncKey, sub))
	if err != nil {
		return &StageError{Stage: "setup.M6", Why: "no well-formed answer to M5", Transport: err}
	}
	if m.Status != 200 {
		return stageErr("setup.M6", "HTTP status %d", m.Status)
	}
	if e, ok := t.Byte(TagError); ok {
		return stageErr("setup.M6.error", "error %d", e)
	}
	s.M6StateBytes = t.GetAll(TagState)
	if st, _ := t.Byte(TagState); st != 6 {
		return stageErr("setup.M6", "state %d, want 6", st)
	}
	data, _ := t.Get(TagEncryptedData)
	plain, err := Open(s.EncKey, []byte("PS-Msg06"), data, nil)
	if err != nil {
		return stageErr("setup.M6.decrypt", "encrypted data (%d bytes) does not open under the session key with nonce PS-Msg06: %v", len(data), err)
	}
	st, err := ParseTLV(plain)
	if err != nil {
		return stageErr("setup.M6.tlv", "%v", err)
	}
	id, _ := st.Get(TagIdentifier)
	pk, _ := st.Get(TagPublicKey)
	sig, _ := st.Get(TagSignature)
	if len(id) == 0 || len(pk) != 32 || len(sig) != 64 {
		return stageErr("setup.M6.items", "identifier %d, ltpk %d, signature %d bytes", len(id), len(pk), len(sig))
	}
	x := HKDF512(s.Srp.K, "Pair-Setup-Accessory-Sign-Salt", "Pair-Setup-Accessory-Sign-Info")
	info := append(append(append([]byte{}, x[:]...), id...), pk...)
	if !ed25519.Verify(ed25519.PublicKey(pk), info, sig) {
		return stageErr("setup.M6.signature", "accessory signature does not verify")
	}
	s.AccessoryID = string(id)
	s.AccessoryLTPK = pk
	return nil
}

// PairSetup runs the complete exchange.
func (c *Conn) PairSetup(me *Identity, code string, rnd io.Reader) (*Setup, error) {
	s, err := c.StartSetup(me, code, rnd)
	if err != nil {
		return s, err
	}
	if err := c.SetupVerify(s); err != nil {
		return s, err
	}
	return s, c.SetupExchange(s)
}

// ---------------------------------------------------------------- pair-verify

// Verify holds the state of one pair-verify exchange on the controller side.
type Verify struct {
	Me          *Identity
	Priv, Pub   [32]byte // controller ephemeral
	AccPub      []byte   // accessory ephemeral
	Shared      []byte
	EncKey      [32]byte
	AccessoryID string
	AccSig      []byte
}

func NewEphemeral(rnd io.Reader) (priv, pub [32]byte) {
	if rnd == nil {
		rnd = rand.Reader
	}
	io.ReadFull(rnd, priv[:])
	p, _ := curve25519.X25519(priv[:], curve25519.Basepoint)
	copy(pub[:], p)
	return
}

func VerifyM1(pub []byte) []byte {
	e := &Enc{}
	return e.Byte(TagState, 1).Bytes(TagPublicKey, pub).B
}

func VerifyEncKey(shared []byte) [32]byte {
	return HKDF512(shared, "Pair-Verify-Encrypt-Salt", "Pair-Verify-Encrypt-Info")
}

// VerifyM3Plain builds the sub-TLV (identifier, signature over ctrlPub | id | accPub).
func VerifyM3Plain(id string, sk ed25519.PrivateKey, ctrlPub, accPub []byte) []byte {
	info := append(append(append([]byte{}, ctrlPub...), []byte(id)...), accPub...)
	e := &Enc{}
	return e.Bytes(TagIdentifier, []byte(id)).Bytes(TagSignature, ed25519.Sign(sk, info)).B
}

func VerifyM3(key [32]byte, sub []byte) []byte {
	e := &Enc{}
	return e.Byte(TagState, 3).Bytes(TagEncryptedData, Seal(key, []byte("PV-Msg03"), sub, nil)).B
}

func VerifyM3Raw(data []byte) []byte {
	e := &Enc{}
	return e.Byte(TagState, 3).Bytes(TagEncryptedData, data).B
}

// StartVerify sends M1 and checks M2; accLTPK may be nil (then the signature is not checked,
// which only the attacker toolkit uses).
func (c *Conn) StartVerify(me *Identity, accLTPK []byte, wantAccID string, rnd io.Reader) (*Verify, error) {
	v := &Verify{Me: me}
	v.Priv, v.Pub = NewEphemeral(rnd)
	m, t, err := c.PostTLV("/pair-verify", VerifyM1(v.Pub[:]))
	if err != nil {
		return v, &StageError{Stage: "verify.M2", Why: "no well-formed answer to M1", Transport: err}
	}
	if m.Status != 200 {
		return v, stageErr("verify.M2", "HTTP status %d", m.Status)
	}
	if st, _ := t.Byte(TagState); st != 2 {
		return v, stageErr("verify.M2", "state %d, want 2", st)
	}
	if e, ok := t.Byte(TagError); ok {
		return v, stageErr("verify.M2.error", "error %d", e)
	}
	v.AccPub, _ = t.Get(TagPublicKey)
	if len(v.AccPub) != 32 {
		return v, stageErr("verify.M2.key", "accessory curve key of %d bytes", len(v.AccPub))
	}
	sh, err := curve25519.X25519(v.Priv[:], v.AccPub)
	if err != nil {
		return v, stageErr("verify.M2.key", "%v", err)
	}
	v.Shared = sh
	v.EncKey = VerifyEncKey(sh)
	data, _ := t.Get(TagEncryptedData)
	plain, err := Open(v.EncKey, []byte("PV-Msg02"), data, nil)
	if err != nil {
		return v, stageErr("verify.M2.decrypt", "encrypted data (%d bytes) does not open under the derived key with nonce PV-Msg02: %v", len(data), err)
	}
	st, err := ParseTLV(plain)
	if err != nil {
		return v, stageErr("verify.M2.tlv", "%v", err)
	}
	id, _ := st.Get(TagIdentifier)
	sig, _ := st.Get(TagSignature)
	v.AccessoryID, v.AccSig = string(id), sig
	if accLTPK != nil {
		info := append(append(append([]byte{}, v.AccPub...), id...), v.Pub[:]...)
		if len(sig) != 64 || !ed25519.Verify(ed25519.PublicKey(accLTPK), info, sig) {
			return v, stageErr("verify.M2.signature", "accessory signature does not verify under the LTPK learnt at pair-setup")
		}
		if wantAccID != "" && wantAccID != string(id) {
			return v, stageErr("verify.M2.identifier", "accessory identifier %q, expected %q", id, wantAccID)
		}
	}
	return v, nil
}

// StageVerifyRefused is reported when M4 carries an error.
const StageVerifyRefused = "verify.M4.refused"

// FinishVerify sends M3, checks M4 and switches the connection to the session layer.
func (c *Conn) FinishVerify(v *Verify) error {
	sub := c.StyleTLV(VerifyM3Plain(v.Me.ID, v.Me.LTSK, v.Pub[:], v.AccPub))
	return c.FinishVerifyWith(v, c.StyleTLV(VerifyM3(v.EncKey, sub)))
}

// FinishVerifyWith sends a prepared M3.
func (c *Conn) FinishVerifyWith(v *Verify, m3 []byte) error {
	if err := c.Send(BuildRequest("POST", "/pair-verify", ContentTLV8, m3)); err != nil {
		return &StageError{Stage: "verify.M4", Why: "send failed", Transport: err}
	}
	m, err := c.ReadResponse()
	if err != nil {
		if _, ok := err.(*MalformedError); ok && looksEncrypted(c.LastRaw()) {
			return &StageError{Stage: "verify.M4.not-plaintext", Why: fmt.Sprintf("M4 is not a plaintext HTTP response (first bytes %x)", head(c.LastRaw(), 16))}
		}
		return &StageError{Stage: "verify.M4", Why: "no well-formed answer to M3", Transport: err}
	}
	t, err := ParseTLV(m.Body)
	if err != nil {
		return stageErr("verify.M4.tlv", "%v", err)
	}
	if m.Status != 200 {
		return stageErr("verify.M4", "HTTP status %d", m.Status)
	}
	if st, _ := t.Byte(TagState); st != 4 {
		return stageErr("verify.M4", "state %d, want 4", st)
	}
	if e, ok := t.Byte(TagError); ok {
		return stageErr(StageVerifyRefused, "error %d", e)
	}
	c.Secure(v.Shared)
	return nil
}

func looksEncrypted(b []byte) bool {
	return len(b) > 0 && !bytes.HasPrefix(b, []byte("HTTP/")) && !bytes.HasPrefix(b, []byte("EVENT/"))
}

func head(b []byte, n int) []byte {
	if len(b) > n {
		return b[:n]
	}
	return b
}

// PairVerify runs the complete exchange and secures the connection.
func (c *Conn) PairVerify(me *Identity, accLTPK []byte, wantAccID string, rnd io.Reader) (*Verify, error) {
	v, err := c.StartVerify(me, accLTPK, wantAccID, rnd)
	if err != nil {
		return v, err
	}
	return v, c.FinishVerify(v)
}

// ---------------------------------------------------------------- pairings

func PairingsAdd(id string, ltpk []byte, admin bool) []byte {
	p := byte(0)
	if admin {
		p = 1
	}
	e := &Enc{}
	return e.Byte(TagState, 1).Byte(TagMethod, 3).Bytes(TagIdentifier, []byte(id)).Bytes(TagPublicKey, ltpk).Byte(TagPermissions, p).B
}

func PairingsRemove(id string) []byte {
	e := &Enc{}
	return e.Byte(TagState, 1).Byte(TagMethod, 4).Bytes(TagIdentifier, []byte(id)).B
}

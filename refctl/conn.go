package refctl

import (
	"bufio"
	"bytes"
	"errors"
	"fmt"
	"io"
	"net"
	"net/textproto"
	"strconv"
	"strings"
	"time"
)

// Message is one HTTP response or EVENT message received from the accessory.
type Message struct {
	Proto  string // "HTTP/1.1" or "EVENT/1.0"
	Status int
	Header textproto.MIMEHeader
	Body   []byte
	// Chunks is the number of transfer-encoding chunks the body came in (0 when Content-Length framed).
	Chunks int
}

func (m *Message) IsEvent() bool { return strings.HasPrefix(m.Proto, "EVENT/") }

// ErrTimeout means nothing (or not enough) arrived before the watchdog deadline.
var ErrTimeout = errors.New("refctl: read watchdog expired")

// Conn is a controller connection: plaintext until Secure() is called, then the HAP session layer.
type Conn struct {
	C       net.Conn
	Timeout time.Duration // watchdog for one response

	secure bool
	wr, rd Framer
	// SplitSizes, when set, returns the frame sizes to use for a request of n bytes (each <= 1024).
	SplitSizes func(n int) []int

	raw   *bufio.Reader // bytes from the socket
	plain *bufio.Reader // message bytes (decrypted when secure)

	// TLVStyle / StyleRand: see StyleTLV (pairing.go).
	TLVStyle  string
	StyleRand interface {
		Read([]byte) (int, error)
		Intn(int) int
		Shuffle(int, func(i, j int))
	}

	// Events received while waiting for responses, in arrival order.
	Events []*Message

	// accounting
	FramesIn, FramesOut int
	BytesIn, BytesOut   int
	// RawIn keeps the raw bytes of the last ReadMessage for diagnostics (bounded)
	lastRaw bytes.Buffer
}

// Dial opens a TCP connection to the accessory.
func Dial(addr string) (*Conn, error) {
	c, err := net.DialTimeout("tcp", addr, 10*time.Second)
	if err != nil {
		return nil, err
	}
	return NewConn(c), nil
}

// NewConn wraps an established connection.
func NewConn(c net.Conn) *Conn {
	cn := &Conn{C: c, Timeout: 20 * time.Second}
	cn.raw = bufio.NewReaderSize(&countReader{c: cn}, 4096)
	cn.plain = cn.raw
	return cn
}

type countReader struct{ c *Conn }

func (r *countReader) Read(p []byte) (int, error) {
	n, err := r.c.C.Read(p)
	r.c.BytesIn += n
	if n > 0 && r.c.lastRaw.Len() < 4096 {
		r.c.lastRaw.Write(p[:n])
	}
	return n, err
}

// Close closes with SO_LINGER 0 so that many short connections do not pile up in TIME_WAIT.
func (c *Conn) Close() error {
	if t, ok := c.C.(*net.TCPConn); ok {
		t.SetLinger(0)
	}
	return c.C.Close()
}

// CloseGraceful closes with a normal FIN.
func (c *Conn) CloseGraceful() error { return c.C.Close() }

func (c *Conn) LocalAddr() string { return c.C.LocalAddr().String() }

// Secure switches the connection to the encrypted session layer with the given shared secret.
// Bytes already buffered from the socket stay in the raw reader and are treated as ciphertext.
func (c *Conn) Secure(shared []byte) {
	c2a, a2c := SessionKeys(shared)
	c.SecureWithKeys(c2a, a2c)
}

func (c *Conn) SecureWithKeys(c2a, a2c [32]byte) {
	c.wr = Framer{Key: c2a}
	c.rd = Framer{Key: a2c}
	c.secure = true
	c.plain = bufio.NewReaderSize(&frameReader{c: c}, 4096)
}

func (c *Conn) IsSecure() bool { return c.secure }

// ErrBadFrame is returned when a frame from the accessory does not authenticate.
type ErrBadFrame struct {
	Counter uint64
	Err     error
	Head    []byte
}

func (e *ErrBadFrame) Error() string {
	return fmt.Sprintf("refctl: frame %d from accessory does not authenticate (%v), starts %x", e.Counter, e.Err, e.Head)
}

type frameReader struct {
	c   *Conn
	buf []byte
}

func (r *frameReader) Read(p []byte) (int, error) {
	for len(r.buf) == 0 {
		var hdr [2]byte
		if _, err := io.ReadFull(r.c.raw, hdr[:]); err != nil {
			return 0, err
		}
		n := int(hdr[0]) | int(hdr[1])<<8
		body := make([]byte, n+16)
		if _, err := io.ReadFull(r.c.raw, body); err != nil {
			if err == io.EOF {
				err = io.ErrUnexpectedEOF
			}
			return 0, err
		}
		pl, err := Open(r.c.rd.Key, counterNonce(r.c.rd.Count), body, hdr[:])
		if err != nil {
			head := append(hdr[:], body...)
			if len(head) > 24 {
				head = head[:24]
			}
			return 0, &ErrBadFrame{Counter: r.c.rd.Count, Err: err, Head: head}
		}
		r.c.rd.Count++
		r.c.FramesIn++
		r.buf = pl
	}
	n := copy(p, r.buf)
	r.buf = r.buf[n:]
	return n, nil
}

// WriteRaw writes bytes to the socket unchanged.
func (c *Conn) WriteRaw(b []byte) error {
	c.C.SetWriteDeadline(time.Now().Add(c.Timeout))
	_, err := c.C.Write(b)
	c.BytesOut += len(b)
	return err
}

// Send writes message bytes: framed and sealed when secure, raw otherwise.
func (c *Conn) Send(b []byte) error {
	if !c.secure {
		return c.WriteRaw(b)
	}
	var sizes []int
	if c.SplitSizes != nil {
		sizes = c.SplitSizes(len(b))
	}
	before := c.wr.Count
	ct := c.wr.SealFrames(b, sizes)
	c.FramesOut += int(c.wr.Count - before)
	return c.WriteRaw(ct)
}

// SendOneFrame seals b as ONE frame whatever its length (up to 65535 bytes; the specification allows 1024) and
// writes it: a peer that does not respect the frame size.
func (c *Conn) SendOneFrame(b []byte) error {
	if !c.secure {
		return c.WriteRaw(b)
	}
	c.FramesOut++
	return c.WriteRaw(c.wr.SealFrame(b))
}

// SealEmptyFrame returns one correctly sealed frame without content at the connection's next counter (nil when the
// connection is not secure); the caller writes it with WriteRaw.
func (c *Conn) SealEmptyFrame() []byte {
	if !c.secure {
		return nil
	}
	c.FramesOut++
	return c.wr.SealFrame(nil)
}

// BuildRequest renders an HTTP/1.1 request as HAP controllers send it.
func BuildRequest(method, target, contentType string, body []byte) []byte {
	var b bytes.Buffer
	fmt.Fprintf(&b, "%s %s HTTP/1.1\r\nHost: accessory.local\r\n", method, target)
	if body != nil || method == "POST" || method == "PUT" {
		if contentType != "" {
			fmt.Fprintf(&b, "Content-Type: %s\r\n", contentType)
		}
		fmt.Fprintf(&b, "Content-Length: %d\r\n", len(body))
	}
	b.WriteString("\r\n")
	b.Write(body)
	return b.Bytes()
}

// BuildRequestChunked renders the same request without a Content-Length: the body travels in transfer-encoding chunks
// of the given sizes (cycled; a size < 1 counts as 1), which every HTTP/1.1 server has to accept (RFC 7230, 3.3.1).
func BuildRequestChunked(method, target, contentType string, body []byte, sizes []int) []byte {
	var b bytes.Buffer
	fmt.Fprintf(&b, "%s %s HTTP/1.1\r\nHost: accessory.local\r\n", method, target)
	if contentType != "" {
		fmt.Fprintf(&b, "Content-Type: %s\r\n", contentType)
	}
	b.WriteString("Transfer-Encoding: chunked\r\n\r\n")
	for i := 0; len(body) > 0; i++ {
		n := 1
		if len(sizes) > 0 && sizes[i%len(sizes)] > 1 {
			n = sizes[i%len(sizes)]
		}
		if n > len(body) {
			n = len(body)
		}
		fmt.Fprintf(&b, "%x\r\n", n)
		b.Write(body[:n])
		b.WriteString("\r\n")
		body = body[n:]
	}
	b.WriteString("0\r\n\r\n")
	return b.Bytes()
}

// ReadMessage reads the next complete message (response or EVENT).
func (c *Conn) ReadMessage() (*Message, error) {
	c.lastRaw.Reset()
	c.C.SetReadDeadline(time.Now().Add(c.Timeout))
	m, err := readMessage(c.plain)
	if err != nil {
		var ne net.Error
		if errors.As(err, &ne) && ne.Timeout() {
			return nil, ErrTimeout
		}
	}
	return m, err
}

// LastRaw returns the first raw bytes received during the last ReadMessage.
func (c *Conn) LastRaw() []byte { return c.lastRaw.Bytes() }

// ReadResponse reads messages until a response arrives; EVENTs are queued in c.Events.
func (c *Conn) ReadResponse() (*Message, error) {
	for {
		m, err := c.ReadMessage()
		if err != nil {
			return nil, err
		}
		if m.IsEvent() {
			c.Events = append(c.Events, m)
			continue
		}
		return m, nil
	}
}

// Do sends one request and reads its response.
func (c *Conn) Do(method, target, contentType string, body []byte) (*Message, error) {
	if err := c.Send(BuildRequest(method, target, contentType, body)); err != nil {
		return nil, err
	}
	return c.ReadResponse()
}

// TakeEvents returns and clears the queued events.
func (c *Conn) TakeEvents() []*Message {
	e := c.Events
	c.Events = nil
	return e
}

// Poll reads whatever arrives within d and returns the raw bytes seen at message level
// (used after the bounded-progress rule fired, to look once more).
func (c *Conn) Poll(d time.Duration) (*Message, error) {
	old := c.Timeout
	c.Timeout = d
	defer func() { c.Timeout = old }()
	return c.ReadResponse()
}

// MalformedError describes a message that is not well-formed HTTP.
type MalformedError struct{ Why string }

func (e *MalformedError) Error() string { return "refctl: malformed message: " + e.Why }

func readMessage(br *bufio.Reader) (*Message, error) {
	tp := textproto.NewReader(br)
	line, err := tp.ReadLine()
	if err != nil {
		return nil, err
	}
	parts := strings.SplitN(line, " ", 3)
	if len(parts) < 2 || !(strings.HasPrefix(parts[0], "HTTP/1.") || strings.HasPrefix(parts[0], "EVENT/1.")) {
		return nil, &MalformedError{fmt.Sprintf("status line %q", trunc(line, 80))}
	}
	st, err := strconv.Atoi(parts[1])
	if err != nil || st < 100 || st > 999 {
		return nil, &MalformedError{fmt.Sprintf("status code in %q", trunc(line, 80))}
	}
	hdr, err := tp.ReadMIMEHeader()
	if err != nil {
		if err == io.EOF {
			err = io.ErrUnexpectedEOF
		}
		var pe textproto.ProtocolError
		if errors.As(err, &pe) {
			return nil, &MalformedError{"header: " + string(pe)}
		}
		return nil, err
	}
	m := &Message{Proto: parts[0], Status: st, Header: hdr}
	te := strings.ToLower(hdr.Get("Transfer-Encoding"))
	switch {
	case te == "chunked":
		for {
			l, err := tp.ReadLine()
			if err != nil {
				return nil, unexpected(err)
			}
			if i := strings.IndexByte(l, ';'); i >= 0 {
				l = l[:i]
			}
			n, err := strconv.ParseUint(strings.TrimSpace(l), 16, 31)
			if err != nil {
				return nil, &MalformedError{fmt.Sprintf("chunk size %q", trunc(l, 40))}
			}
			if n == 0 {
				// trailers until empty line
				for {
					t, err := tp.ReadLine()
					if err != nil {
						return nil, unexpected(err)
					}
					if t == "" {
						break
					}
				}
				break
			}
			buf := make([]byte, n)
			if _, err := io.ReadFull(br, buf); err != nil {
				return nil, unexpected(err)
			}
			m.Body = append(m.Body, buf...)
			m.Chunks++
			var crlf [2]byte
			if _, err := io.ReadFull(br, crlf[:]); err != nil {
				return nil, unexpected(err)
			}
			if crlf != [2]byte{'\r', '\n'} {
				return nil, &MalformedError{"chunk not terminated by CRLF"}
			}
		}
	case te != "":
		return nil, &MalformedError{"transfer-encoding " + te}
	case hdr.Get("Content-Length") != "":
		n, err := strconv.ParseUint(strings.TrimSpace(hdr.Get("Content-Length")), 10, 31)
		if err != nil {
			return nil, &MalformedError{"content-length " + hdr.Get("Content-Length")}
		}
		m.Body = make([]byte, n)
		if _, err := io.ReadFull(br, m.Body); err != nil {
			return nil, unexpected(err)
		}
	case st == 204 || st == 304 || st < 200:
	default:
		return nil, &MalformedError{fmt.Sprintf("status %d without Content-Length or chunked encoding", st)}
	}
	return m, nil
}

func unexpected(err error) error {
	if err == io.EOF {
		return io.ErrUnexpectedEOF
	}
	return err
}

func trunc(s string, n int) string {
	if len(s) > n {
		return s[:n] + "..."
	}
	return s
}

// ParseMessages parses a complete plaintext byte stream into messages (used by offline checkers).
func ParseMessages(b []byte) ([]*Message, error) {
	br := bufio.NewReader(bytes.NewReader(b))
	var out []*Message
	for {
		if _, err := br.Peek(1); err == io.EOF {
			return out, nil
		}
		m, err := readMessage(br)
		if err != nil {
			return out, err
		}
		out = append(out, m)
	}
}

// SendMany sends several messages in one socket write (back-to-back requests).
func (c *Conn) SendMany(msgs ...[]byte) error {
	var all []byte
	for _, m := range msgs {
		if c.secure {
			var sizes []int
			if c.SplitSizes != nil {
				sizes = c.SplitSizes(len(m))
			}
			before := c.wr.Count
			all = append(all, c.wr.SealFrames(m, sizes)...)
			c.FramesOut += int(c.wr.Count - before)
		} else {
			all = append(all, m...)
		}
	}
	return c.WriteRaw(all)
}

package vf

import "testing"

func TestBlockedInModule(t *testing.T) {
	dump := `goroutine 7 [sync.Mutex.Lock, 3 minutes]:
sync.runtime_SemacquireMutex(0xc0000a0000?, 0x0?, 0x0?)
	/usr/lib/go/src/runtime/sema.go:77 +0x25
sync.(*Mutex).lockSlow(0xc000012345)
	/usr/lib/go/src/sync/mutex.go:171 +0x15d
sync.(*Mutex).Lock(...)
	/usr/lib/go/src/sync/mutex.go:90
github.com/brutella/hc/hap.(*session).Decrypter(0xc000012340)
	/repo/hap/session.go:69 +0x45
github.com/brutella/hc/hap.(*Connection).Read(0xc000010000, {0xc000200000, 0x1000, 0x1000})
	/repo/hap/connection.go:180 +0x3a

goroutine 9 [semacquire, 6 minutes]:
sync.runtime_SemacquireMutex(0xc0000a0000?, 0x0?, 0x0?)
	/usr/lib/go/src/runtime/sema.go:77 +0x25
sync.(*Mutex).lockSlow(0xc000012345)
	/usr/lib/go/src/sync/mutex.go:171 +0x15d
sync.(*Mutex).Lock(...)
	/usr/lib/go/src/sync/mutex.go:90
github.com/brutella/dnssd.(*responder).Respond(0xc000300000, {0x8e1b60, 0xc000400000})
	/root/go/pkg/mod/github.com/brutella/dnssd@v1.2.1/responder.go:99 +0x4f
github.com/brutella/hc.(*ipTransport).Start.func1()
	/repo/ip_transport.go:168 +0x3c
created by github.com/brutella/hc.(*ipTransport).Start in goroutine 50
	/repo/ip_transport.go:167 +0x3d0

goroutine 11 [chan receive, 9 minutes]:
github.com/brutella/hc.(*ipTransport).Start(0xc000100000)
	/repo/ip_transport.go:196 +0x4c5`
	got := blockedInModule(dump, "github.com/brutella/hc")
	if len(got) != 1 || got[0] != "goroutine 7 [sync.Mutex.Lock, 3 minutes] in github.com/brutella/hc/hap.(*session).Decrypter" {
		t.Fatalf("got %q", got)
	}
}

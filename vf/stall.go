package vf

// Stall detector.  A monitor that calls the code under test in its own process hangs with it when that code
// deadlocks (a lock that one path forgets to release): without help the only outcome would be the outer watchdog
// and an inconclusive run, for a defect that is as real as a panic.  Every Run therefore watches its own progress
// (Eval / Count / Nontrivial calls).  When nothing has moved for a while it takes a goroutine dump and looks for
// goroutines that have been waiting for MINUTES on a mutex (the Go runtime prints the waiting time in the dump's
// state column) with a function of the module under test on their stack.  Such a goroutine is a violation
// ("deadlock inside brutella/hc"), reported with the dump as the witness; anything else stays a matter for the
// watchdog.  Waiting on channels, on the network or in time.Sleep is never judged: servers do that legitimately.

import (
	"fmt"
	"regexp"
	"runtime"
	"strings"
	"sync/atomic"
	"time"
)

var lastProgress int64 // unix nanoseconds of the last sign of progress

func progress() { atomic.StoreInt64(&lastProgress, time.Now().UnixNano()) }

var reGoroutineHead = regexp.MustCompile(`^goroutine (\d+) \[([^\]]*)\]:`)

// blockedInModule returns a description of every goroutine that has been waiting on a mutex for at least a minute
// with a frame of module (and not only of its test hooks) on its stack.
func blockedInModule(dump, module string) []string {
	var out []string
	for _, g := range strings.Split(dump, "\n\n") {
		lines := strings.Split(strings.TrimSpace(g), "\n")
		if len(lines) < 2 {
			continue
		}
		m := reGoroutineHead.FindStringSubmatch(lines[0])
		if m == nil {
			continue
		}
		state := m[2]
		if !strings.Contains(state, "minute") {
			continue
		}
		if !(strings.Contains(state, "Mutex.Lock") || strings.Contains(state, "RWMutex") || strings.Contains(state, "semacquire")) {
			continue
		}
		// the lock that is waited for is the module's only if the module's own code asked for it: the first frame below
		// the runtime and package sync (the caller of Lock / Wait) has to be a function of the module.  A goroutine that the
		// module started and that waits inside a dependency (the mDNS responder, net/http) is that dependency's business.
		top := ""
		for _, l := range lines[1:] {
			l = strings.TrimSpace(l)
			if l == "" || strings.HasPrefix(l, "/") || strings.HasPrefix(l, "created by") {
				continue // file:line rows
			}
			if strings.HasPrefix(l, "sync.") || strings.HasPrefix(l, "runtime.") || strings.HasPrefix(l, "internal/") || strings.HasPrefix(l, "sync/atomic.") {
				continue
			}
			if strings.HasPrefix(l, module+"/") || strings.HasPrefix(l, module+".") {
				if !strings.HasPrefix(l, module+"/verifhook") {
					top = l
					if i := strings.LastIndex(top, "("); i > 0 {
						top = top[:i]
					}
				}
			}
			break
		}
		if top != "" {
			out = append(out, fmt.Sprintf("goroutine %s [%s] in %s", m[1], state, top))
		}
	}
	return out
}

func (r *Run) startStallDetector() {
	progress()
	go func() {
		for {
			time.Sleep(15 * time.Second)
			idle := time.Duration(time.Now().UnixNano() - atomic.LoadInt64(&lastProgress))
			if idle < 75*time.Second {
				continue
			}
			buf := make([]byte, 8<<20)
			n := runtime.Stack(buf, true)
			dump := string(buf[:n])
			bl := blockedInModule(dump, "github.com/brutella/hc")
			if len(bl) == 0 {
				continue
			}
			site := bl[0][strings.LastIndex(bl[0], " in ")+4:]
			site = strings.TrimPrefix(site, "github.com/brutella/hc/")
			if len(dump) > 60000 {
				dump = dump[:60000]
			}
			r.Violation("deadlock:"+site, fmt.Sprintf("the monitor has made no progress for %s and %d goroutine(s) have been waiting on a mutex inside brutella/hc for minutes: %s", idle.Round(time.Second), len(bl), strings.Join(bl, "; ")),
				map[string]interface{}{"blocked": bl, "goroutine_dump": dump})
			r.Finish()
		}
	}()
}

// deadlockBehindInconclusive: a run that is about to end inconclusive (requests that were never answered, aborted
// histories) while goroutines of the module under test sit on a mutex gives them a minute: if they are still there
// the run has found a deadlock, not a lack of evidence.
func (r *Run) deadlockBehindInconclusive() {
	r.mu.Lock()
	inc, viol := len(r.inconcl), len(r.viols)
	r.mu.Unlock()
	if inc == 0 || viol > 0 {
		return
	}
	take := func() string {
		buf := make([]byte, 8<<20)
		return string(buf[:runtime.Stack(buf, true)])
	}
	first := take()
	waiting := false
	for _, g := range strings.Split(first, "\n\n") {
		head := strings.SplitN(g, "\n", 2)[0]
		if (strings.Contains(head, "Mutex.Lock") || strings.Contains(head, "RWMutex") || strings.Contains(head, "semacquire")) &&
			strings.Contains(g, "github.com/brutella/hc/") {
			waiting = true
		}
	}
	if !waiting {
		return
	}
	time.Sleep(65 * time.Second)
	dump := take()
	bl := blockedInModule(dump, "github.com/brutella/hc")
	if len(bl) == 0 {
		return
	}
	site := bl[0][strings.LastIndex(bl[0], " in ")+4:]
	site = strings.TrimPrefix(site, "github.com/brutella/hc/")
	if len(dump) > 60000 {
		dump = dump[:60000]
	}
	r.Violation("deadlock:"+site, fmt.Sprintf("requests went unanswered and %d goroutine(s) have been waiting on a mutex inside brutella/hc for more than a minute: %s", len(bl), strings.Join(bl, "; ")),
		map[string]interface{}{"blocked": bl, "goroutine_dump": dump})
}

package vf

import (
	"os"
	"path/filepath"
	"regexp"
	"sort"
	"strings"
)

// RaceReport is one "WARNING: DATA RACE" block of a race detector log.
type RaceReport struct {
	File   string
	Block  string
	Frames []string // function names of the two access stacks (not the goroutine creation stacks)
	Tops   []string // top frame inside the module under test of each access stack, sorted
}

var reRaceFrame = regexp.MustCompile(`^\s+(\S+?)\(\)\s*$`)

// ParseRaceLogs reads every file matching pattern (GORACE log_path=<prefix> writes <prefix>.<pid>).
func ParseRaceLogs(pattern string, module string) []RaceReport {
	var out []RaceReport
	files, _ := filepath.Glob(pattern)
	for _, f := range files {
		data, err := os.ReadFile(f)
		if err != nil {
			continue
		}
		for _, block := range strings.Split(string(data), "==================") {
			if !strings.Contains(block, "WARNING: DATA RACE") {
				continue
			}
			rep := RaceReport{File: f, Block: block}
			for si, st := range strings.Split(block, "\n\n") {
				if si >= 2 {
					break
				}
				top := ""
				for _, line := range strings.Split(st, "\n") {
					if m := reRaceFrame.FindStringSubmatch(line); m != nil {
						rep.Frames = append(rep.Frames, m[1])
						if top == "" && strings.HasPrefix(m[1], module) {
							top = m[1]
						}
					}
				}
				if top != "" {
					rep.Tops = append(rep.Tops, top)
				}
			}
			sort.Strings(rep.Tops)
			out = append(out, rep)
		}
	}
	return out
}

// HasFrame reports whether one of the access stacks contains a function whose name contains any of subs.
func (r RaceReport) HasFrame(subs ...string) bool {
	for _, f := range r.Frames {
		for _, s := range subs {
			if strings.Contains(f, s) {
				return true
			}
		}
	}
	return false
}

// Key is a short dedup key: the pair of top frames with the module prefix stripped.
func (r RaceReport) Key(module string) string {
	var t []string
	for _, x := range r.Tops {
		t = append(t, strings.TrimPrefix(x, module))
	}
	return strings.Join(t, "~")
}

// Package vf is the small framework every monitor uses: seeds, coverage
// counters, violation signatures, the known-findings classifier, evidence
// files and the exit protocol (0 held / 1 violation / 2 inconclusive).
//
// It imports nothing from brutella/hc.
package vf

import (
	"bufio"
	"crypto/sha256"
	"encoding/hex"
	"encoding/json"
	"flag"
	"fmt"
	"hash/fnv"
	"math/rand"
	"os"
	"path/filepath"
	"runtime/debug"
	"sort"
	"strconv"
	"strings"
	"sync"
	"time"
)

// Root is the /verif directory (the check script runs monitors with cwd=/verif).
func Root() string {
	if r := os.Getenv("VERIF_ROOT"); r != "" {
		return r
	}
	wd, _ := os.Getwd()
	return wd
}

type violation struct {
	Sig     string      `json:"sig"`
	What    string      `json:"what"`
	Count   int         `json:"count"`
	Witness interface{} `json:"witness"`
}

// Run collects what one execution of a monitor observed.
type Run struct {
	ID     string
	Tier   string
	Seed   int64
	Level  string
	Replay string

	mu          sync.Mutex
	start       time.Time
	evals       int64
	counters    map[string]int64
	distinct    map[string]map[string]struct{}
	nontrivial  map[string]struct{}
	samples     []interface{}
	maxSamples  int
	viols       map[string]*violation
	violOrder   []string
	inconcl     []string
	rule        string
	assumptions []string
	extra       map[string]interface{}
	exhaustive  *bool
}

// Start parses the common flags / environment of a monitor.
func Start(id string, level string) *Run {
	tier := os.Getenv("VERIF_TIER")
	if tier == "" {
		tier = "quick"
	}
	seed := int64(1)
	if s := os.Getenv("VERIF_SEED"); s != "" {
		if v, err := strconv.ParseInt(strings.TrimSpace(s), 10, 64); err == nil {
			seed = v
		}
	}
	fs := flag.NewFlagSet(id, flag.ContinueOnError)
	ft := fs.String("tier", tier, "quick|thorough")
	fseed := fs.Int64("seed", seed, "seed")
	freplay := fs.String("replay", "", "replay file")
	// unknown extra args are left to the monitor
	_ = fs.Parse(os.Args[1:])
	if *ft != "quick" && *ft != "thorough" {
		*ft = "quick"
	}
	r := &Run{ID: id, Tier: *ft, Seed: *fseed, Level: level, Replay: *freplay,
		start: time.Now(), counters: map[string]int64{}, distinct: map[string]map[string]struct{}{},
		nontrivial: map[string]struct{}{}, viols: map[string]*violation{}, maxSamples: 6,
		extra: map[string]interface{}{}}
	os.MkdirAll(r.WorkDir(), 0o755)
	r.startStallDetector()
	return r
}

func (r *Run) Thorough() bool { return r.Tier == "thorough" }

// Pick returns q for the quick tier and t for thorough.
func (r *Run) Pick(q, t int) int {
	if r.Thorough() {
		return t
	}
	return q
}

// WorkDir is the scratch directory of this property (inside /verif/.work).
func (r *Run) WorkDir() string {
	// VERIF_SCRATCH separates concurrent runs of the same check on different trees (mutation runs)
	if s := os.Getenv("VERIF_SCRATCH"); s != "" {
		return filepath.Join(Root(), ".work", r.ID+"."+s)
	}
	return filepath.Join(Root(), ".work", r.ID)
}

// Rand returns a PRNG determined by (seed, stream).
func (r *Run) Rand(stream string) *rand.Rand {
	h := fnv.New64a()
	h.Write([]byte(stream))
	return rand.New(rand.NewSource(r.Seed*1000003 ^ int64(h.Sum64())))
}

// RandN is Rand for a numbered case of a stream.
func (r *Run) RandN(stream string, n int) *rand.Rand {
	return r.Rand(stream + "#" + strconv.Itoa(n))
}

func (r *Run) SetRule(s string)              { r.mu.Lock(); r.rule = s; r.mu.Unlock() }
func (r *Run) Assume(s string)               { r.mu.Lock(); r.assumptions = append(r.assumptions, s); r.mu.Unlock() }
func (r *Run) SetExhaustive(b bool)          { r.mu.Lock(); r.exhaustive = &b; r.mu.Unlock() }
func (r *Run) Extra(k string, v interface{}) { r.mu.Lock(); r.extra[k] = v; r.mu.Unlock() }

// Eval counts one executed case.
func (r *Run) Eval()       { progress(); r.mu.Lock(); r.evals++; r.mu.Unlock() }
func (r *Run) Evals(n int) { progress(); r.mu.Lock(); r.evals += int64(n); r.mu.Unlock() }

// Count adds to a named counter that is written into the evidence.
func (r *Run) Count(key string, n int) {
	progress()
	r.mu.Lock()
	r.counters[key] += int64(n)
	r.mu.Unlock()
}

func (r *Run) Counter(key string) int64 { r.mu.Lock(); defer r.mu.Unlock(); return r.counters[key] }

// Distinct records a member of a named class; the evidence lists the class sizes.
func (r *Run) Distinct(class, key string) {
	r.mu.Lock()
	m := r.distinct[class]
	if m == nil {
		m = map[string]struct{}{}
		r.distinct[class] = m
	}
	m[key] = struct{}{}
	r.mu.Unlock()
}

func (r *Run) DistinctN(class string) int {
	r.mu.Lock()
	defer r.mu.Unlock()
	return len(r.distinct[class])
}

// Nontrivial records one distinct, non-trivial case (by the monitor's rule);
// keys are hashed so long keys are cheap.
func (r *Run) Nontrivial(key string) {
	h := sha256.Sum256([]byte(key))
	k := string(h[:12])
	r.mu.Lock()
	r.nontrivial[k] = struct{}{}
	r.mu.Unlock()
}

// Sample keeps a few of the actual cases for the evidence file.
func (r *Run) Sample(v interface{}) {
	r.mu.Lock()
	if len(r.samples) < r.maxSamples {
		r.samples = append(r.samples, v)
	}
	r.mu.Unlock()
}

// SampleEvery keeps case number i when it is one of a spread of indices.
func (r *Run) SampleAt(i int, v func() interface{}) {
	if i == 0 || i == 7 || i == 101 || i == 1009 || i == 5003 || i == 20011 {
		r.Sample(v())
	}
}

// Violation records a violation with a signature that names the failing input
// class / call site / history shape.
func (r *Run) Violation(sig, what string, witness interface{}) {
	r.mu.Lock()
	defer r.mu.Unlock()
	v := r.viols[sig]
	if v == nil {
		v = &violation{Sig: sig, What: what, Witness: witness}
		r.viols[sig] = v
		r.violOrder = append(r.violOrder, sig)
		// recorded at once: a monitor that is stopped from outside before it reaches Finish (the code under test spins,
		// a child never returns) has still said what it saw; ./check turns these lines into the verdict in that case
		if len(r.violOrder) <= 25 {
			if p := r.writeReplay(v); p != "" {
				fmt.Printf("PENDING-VIOLATION property=%s replay=%s sig=%s :: %s\n", r.ID, p, sig, oneLine(what))
			}
		}
	}
	v.Count++
}

func (r *Run) writeReplay(v *violation) string {
	h := sha256.Sum256([]byte(v.Sig))
	p := filepath.Join(r.WorkDir(), "replay-"+hex.EncodeToString(h[:6])+".json")
	b, err := json.MarshalIndent(map[string]interface{}{"property": r.ID, "seed": r.Seed, "tier": r.Tier,
		"sig": v.Sig, "what": v.What, "count": v.Count, "witness": v.Witness}, "", " ")
	if err != nil {
		b, _ = json.MarshalIndent(map[string]interface{}{"property": r.ID, "seed": r.Seed, "tier": r.Tier,
			"sig": v.Sig, "what": v.What, "count": v.Count, "witness": fmt.Sprintf("%+v", v.Witness)}, "", " ")
	}
	if os.WriteFile(p, b, 0o644) != nil {
		return ""
	}
	return p
}

func (r *Run) ViolationCount() int {
	r.mu.Lock()
	defer r.mu.Unlock()
	n := 0
	for _, v := range r.viols {
		n += v.Count
	}
	return n
}

// Inconclusive marks the run as not decided (watchdog, floor not met, ...).
func (r *Run) Inconclusive(reason string) {
	r.mu.Lock()
	r.inconcl = append(r.inconcl, reason)
	r.mu.Unlock()
}

// Floor demands that the run observed at least want of something.
func (r *Run) Floor(name string, got, want int) {
	if got < want {
		r.Inconclusive(fmt.Sprintf("coverage floor %s: got %d want >= %d", name, got, want))
	}
}

// Guard runs f and converts a panic of the monitor itself into inconclusive.
func (r *Run) Guard(name string, f func()) {
	defer func() {
		if e := recover(); e != nil {
			r.Inconclusive(fmt.Sprintf("monitor panic in %s: %v\n%s", name, e, debug.Stack()))
		}
	}()
	f()
}

// Watchdog ends the process as inconclusive if the monitor runs longer than d.
func (r *Run) Watchdog(d time.Duration) {
	go func() {
		time.Sleep(d)
		fmt.Printf("INCONCLUSIVE property=%s reason=watchdog after %s\n", r.ID, d)
		os.Exit(2)
	}()
}

type finding struct {
	open bool
	prop string
	sig  string
	text string
}

func loadFindings() []finding {
	f, err := os.Open(filepath.Join(Root(), "known_findings.txt"))
	if err != nil {
		return nil
	}
	defer f.Close()
	var out []finding
	sc := bufio.NewScanner(f)
	for sc.Scan() {
		line := strings.TrimSpace(sc.Text())
		if line == "" || strings.HasPrefix(line, "#") {
			continue
		}
		var fd finding
		switch {
		case strings.HasPrefix(line, "open:"):
			fd.open = true
			line = strings.TrimSpace(strings.TrimPrefix(line, "open:"))
		case strings.HasPrefix(line, "fixed:"):
			line = strings.TrimSpace(strings.TrimPrefix(line, "fixed:"))
		default:
			continue
		}
		fields := strings.Fields(line)
		var rest []string
		for _, fl := range fields {
			switch {
			case strings.HasPrefix(fl, "property=") && fd.prop == "":
				fd.prop = strings.TrimPrefix(fl, "property=")
			case strings.HasPrefix(fl, "sig=") && fd.sig == "":
				fd.sig = strings.TrimPrefix(fl, "sig=")
			default:
				rest = append(rest, fl)
			}
		}
		fd.text = strings.Join(rest, " ")
		out = append(out, fd)
	}
	return out
}

// Finish classifies, writes evidence and witness files, prints the verdict lines and exits.
func (r *Run) Finish() {
	r.deadlockBehindInconclusive()
	r.mu.Lock()
	defer r.mu.Unlock()
	known := map[string]finding{}
	for _, f := range loadFindings() {
		if f.open && f.prop == r.ID {
			known[f.sig] = f
		}
	}
	var newViol []*violation
	var knownHit []*violation
	total := 0
	for _, sig := range r.violOrder {
		v := r.viols[sig]
		total += v.Count
		if _, ok := known[sig]; ok {
			knownHit = append(knownHit, v)
		} else {
			newViol = append(newViol, v)
		}
	}

	// evidence
	cov := map[string]interface{}{}
	for k, v := range r.extra {
		cov[k] = v
	}
	cov["evaluations"] = r.evals
	cov["distinct_nontrivial"] = len(r.nontrivial)
	cov["rule"] = r.rule
	samples := r.samples
	if len(samples) == 0 {
		// a run that ended early (violations) may not have reached its sampling points: show the witnesses instead
		for _, sig := range r.violOrder {
			if len(samples) < 3 {
				samples = append(samples, map[string]interface{}{"violating_case": sig, "what": r.viols[sig].What})
			}
		}
	}
	if samples == nil {
		samples = []interface{}{}
	}
	cov["samples"] = samples
	cnt := map[string]int64{}
	for k, v := range r.counters {
		cnt[k] = v
	}
	cov["counters"] = cnt
	dn := map[string]int{}
	for k, v := range r.distinct {
		dn[k] = len(v)
	}
	cov["distinct_classes"] = dn
	if r.exhaustive != nil {
		cov["exhaustive"] = *r.exhaustive
	}
	var sigs []string
	for _, v := range knownHit {
		sigs = append(sigs, v.Sig)
	}
	sort.Strings(sigs)
	cov["known_findings_observed"] = sigs
	var nsig []string
	for _, v := range newViol {
		nsig = append(nsig, v.Sig)
	}
	cov["violation_signatures"] = nsig
	if len(r.inconcl) > 0 {
		cov["inconclusive"] = r.inconcl
	}
	ev := map[string]interface{}{
		"property_id": r.ID,
		"tier":        r.Tier,
		"seed":        r.Seed,
		"level":       r.Level,
		"coverage":    cov,
		"assumptions": append([]string{}, r.assumptions...),
		"wall_s":      time.Since(r.start).Seconds(),
		"violations":  len(newViol),
	}
	if r.Replay == "" && os.Getenv("VERIF_SCRATCH") != "" {
		// a scratch run (mutant) must not overwrite the evidence of the tree under /repo
		b, _ := json.MarshalIndent(ev, "", " ")
		os.WriteFile(filepath.Join(r.WorkDir(), "evidence.json"), b, 0o644)
	} else if r.Replay == "" {
		os.MkdirAll(filepath.Join(Root(), "evidence"), 0o755)
		b, err := json.MarshalIndent(ev, "", " ")
		if err != nil {
			// a sample was not encodable: drop samples rather than lose the file
			cov["samples"] = []interface{}{fmt.Sprintf("unencodable sample: %v", err)}
			b, _ = json.MarshalIndent(ev, "", " ")
		}
		tmp := filepath.Join(Root(), "evidence", r.ID+".json.tmp")
		os.WriteFile(tmp, b, 0o644)
		os.Rename(tmp, filepath.Join(Root(), "evidence", r.ID+".json"))
	}

	fmt.Printf("property=%s tier=%s seed=%d evaluations=%d distinct_nontrivial=%d wall_s=%.1f\n",
		r.ID, r.Tier, r.Seed, r.evals, len(r.nontrivial), time.Since(r.start).Seconds())
	keys := make([]string, 0, len(r.counters))
	for k := range r.counters {
		keys = append(keys, k)
	}
	sort.Strings(keys)
	for _, k := range keys {
		fmt.Printf("  observed %s=%d\n", k, r.counters[k])
	}
	dkeys := make([]string, 0, len(dn))
	for k := range dn {
		dkeys = append(dkeys, k)
	}
	sort.Strings(dkeys)
	for _, k := range dkeys {
		fmt.Printf("  distinct %s=%d\n", k, dn[k])
	}
	for _, v := range knownHit {
		fmt.Printf("KNOWN-FINDING: property=%s %s (sig=%s, seen %d times)\n", r.ID, known[v.Sig].text, v.Sig, v.Count)
	}
	if len(newViol) > 0 {
		for i, v := range newViol {
			h := sha256.Sum256([]byte(v.Sig))
			p := filepath.Join(r.WorkDir(), "replay-"+hex.EncodeToString(h[:6])+".json")
			b, err := json.MarshalIndent(map[string]interface{}{"property": r.ID, "seed": r.Seed, "tier": r.Tier,
				"sig": v.Sig, "what": v.What, "count": v.Count, "witness": v.Witness}, "", " ")
			if err != nil {
				b, _ = json.MarshalIndent(map[string]interface{}{"property": r.ID, "seed": r.Seed, "tier": r.Tier,
					"sig": v.Sig, "what": v.What, "count": v.Count, "witness": fmt.Sprintf("%+v", v.Witness)}, "", " ")
			}
			os.WriteFile(p, b, 0o644)
			if i < 25 {
				fmt.Printf("VIOLATION property=%s replay=%s sig=%s count=%d :: %s\n", r.ID, p, v.Sig, v.Count, oneLine(v.What))
			}
		}
		if len(newViol) > 25 {
			fmt.Printf("  (%d more violation signatures, see %s)\n", len(newViol)-25, r.WorkDir())
		}
		os.Exit(1)
	}
	if len(r.inconcl) > 0 {
		for _, s := range r.inconcl {
			fmt.Printf("INCONCLUSIVE property=%s reason=%s\n", r.ID, oneLine(s))
		}
		os.Exit(2)
	}
	fmt.Printf("HELD property=%s on everything explored\n", r.ID)
	os.Exit(0)
}

func oneLine(s string) string {
	s = strings.ReplaceAll(s, "\n", " | ")
	if len(s) > 400 {
		s = s[:400] + "..."
	}
	return s
}

// Hex is a short helper for witnesses.
func Hex(b []byte) string {
	if len(b) > 96 {
		return hex.EncodeToString(b[:96]) + fmt.Sprintf("...(%d bytes)", len(b))
	}
	return hex.EncodeToString(b)
}

// Recover runs f and reports a panic as (true, text).
func Recover(f func()) (panicked bool, text string) {
	defer func() {
		if e := recover(); e != nil {
			panicked = true
			text = fmt.Sprintf("%v\n%s", e, debug.Stack())
		}
	}()
	f()
	return
}

// PanicSite extracts the first stack frame below the panic machinery that is
// inside the given module path fragment, as "file.go:func" without line
// numbers, so signatures are stable under unrelated edits.
func PanicSite(stack string, fragment string) string {
	lines := strings.Split(stack, "\n")
	for i := 0; i+1 < len(lines); i++ {
		l := strings.TrimSpace(lines[i])
		if strings.Contains(l, fragment) && strings.Contains(l, "(") && !strings.HasPrefix(l, "/") {
			fn := l
			if j := strings.LastIndex(fn, "("); j > 0 {
				fn = fn[:j]
			}
			if j := strings.LastIndex(fn, "/"); j >= 0 {
				fn = fn[j+1:]
			}
			return fn
		}
	}
	return "unknown"
}

// RecoverWithin runs f in its own goroutine and waits at most d for it. A pure function on a small input that
// does not return within a generous d (seconds where microseconds are expected) is reported as hung; the
// goroutine is abandoned.  This is the one place where wall-clock time decides: non-termination cannot be
// observed any other way.
func RecoverWithin(d time.Duration, f func()) (hung bool, panicked bool, text string) {
	type res struct {
		p bool
		t string
	}
	ch := make(chan res, 1)
	go func() {
		p, t := Recover(f)
		ch <- res{p, t}
	}()
	select {
	case r := <-ch:
		return false, r.p, r.t
	case <-time.After(d):
		return true, false, ""
	}
}

// Package script provides a scripted net.Conn: the test decides exactly how the
// "network" splits or coalesces the byte stream and where it is idle.
package script

import (
	"fmt"
	"net"
	"sync"
	"sync/atomic"
	"time"
)

// Step is one network event: a segment of data, or an idle period (one read timeout).
type Step struct {
	Data []byte
	Idle bool
}

// ReadRec records one Read call on the scripted connection.
type ReadRec struct {
	Buf     int
	N       int
	Timeout bool
	Err     string
}

type timeoutErr struct{}

func (timeoutErr) Error() string   { return "i/o timeout (scripted)" }
func (timeoutErr) Timeout() bool   { return true }
func (timeoutErr) Temporary() bool { return true }

type addr string

func (a addr) Network() string { return "script" }
func (a addr) String() string  { return string(a) }

var seq int64

// Conn is the scripted connection. The peer never disconnects: when the script is
// exhausted Read returns a timeout error, never EOF.
type Conn struct {
	mu        sync.Mutex
	wmu       sync.Mutex
	steps     []Step
	pos       int
	cur       []byte
	Delivered int // raw bytes handed out so far
	Timeouts  int
	// DeliveredAtTimeout is Delivered at the moment the last timeout was returned: what the reader had received
	// when it went back to the network and found nothing
	DeliveredAtTimeout int
	Reads              []ReadRec
	Writes             [][]byte
	closed             bool
	remote             addr
	// WriteDelay is called (outside the lock) before a write is recorded; it may sleep.
	WriteDelay func(n int)
	// MaxWrite, when > 0, makes Write accept the data in pieces of at most MaxWrite bytes,
	// yielding between pieces (a slow socket).
	MaxWrite  int
	KeepReads bool
	// OnData, when set, is called once (and cleared) inside the Read call that is about to hand out the next data
	// segment, before any byte of it is copied: what the receiver's owner does while a read is pending
	OnData func()
}

func New(steps []Step) *Conn {
	return &Conn{steps: steps, remote: addr(fmt.Sprintf("script-%d", atomic.AddInt64(&seq, 1))), KeepReads: true}
}

// Append adds steps while the connection is in use.
func (c *Conn) Append(s ...Step) {
	c.mu.Lock()
	c.steps = append(c.steps, s...)
	c.mu.Unlock()
}

// Exhausted reports whether every scripted byte was delivered.
func (c *Conn) Exhausted() bool {
	c.mu.Lock()
	defer c.mu.Unlock()
	return c.pos >= len(c.steps) && len(c.cur) == 0
}

func (c *Conn) Closed() bool {
	c.mu.Lock()
	defer c.mu.Unlock()
	return c.closed
}

func (c *Conn) Read(p []byte) (int, error) {
	c.mu.Lock()
	defer c.mu.Unlock()
	rec := ReadRec{Buf: len(p)}
	defer func() {
		if c.KeepReads {
			c.Reads = append(c.Reads, rec)
		}
	}()
	if c.closed {
		rec.Err = "closed"
		return 0, net.ErrClosed
	}
	if len(p) == 0 {
		return 0, nil
	}
	if len(c.cur) == 0 {
		if c.pos >= len(c.steps) {
			c.Timeouts++
			c.DeliveredAtTimeout = c.Delivered
			rec.Timeout = true
			return 0, timeoutErr{}
		}
		st := c.steps[c.pos]
		c.pos++
		if st.Idle {
			c.Timeouts++
			c.DeliveredAtTimeout = c.Delivered
			rec.Timeout = true
			return 0, timeoutErr{}
		}
		c.cur = st.Data
		if len(c.cur) == 0 {
			// an empty segment is no event at all
			c.Timeouts++
			c.DeliveredAtTimeout = c.Delivered
			rec.Timeout = true
			return 0, timeoutErr{}
		}
	}
	if f := c.OnData; f != nil {
		c.OnData = nil
		c.mu.Unlock()
		f()
		c.mu.Lock()
	}
	n := copy(p, c.cur)
	c.cur = c.cur[n:]
	c.Delivered += n
	rec.N = n
	return n, nil
}

func (c *Conn) Write(p []byte) (int, error) {
	if c.WriteDelay != nil {
		c.WriteDelay(len(p))
	}
	if c.MaxWrite <= 0 {
		c.mu.Lock()
		defer c.mu.Unlock()
		if c.closed {
			return 0, net.ErrClosed
		}
		c.Writes = append(c.Writes, append([]byte(nil), p...))
		return len(p), nil
	}
	// a slow socket: pieces of one Write call stay contiguous (the kernel guarantees that for one
	// write(2) on a stream socket only up to the bytes it accepted; Go's net.Conn.Write loops under the
	// fd write lock, so one Write call is contiguous as a whole) — model: hold a write lock per call.
	c.wmu.Lock()
	defer c.wmu.Unlock()
	total := 0
	for len(p) > 0 {
		n := c.MaxWrite
		if n > len(p) {
			n = len(p)
		}
		c.mu.Lock()
		if c.closed {
			c.mu.Unlock()
			return total, net.ErrClosed
		}
		c.Writes = append(c.Writes, append([]byte(nil), p[:n]...))
		c.mu.Unlock()
		total += n
		p = p[n:]
		yield()
	}
	return total, nil
}

// Written returns everything written so far, concatenated.
func (c *Conn) Written() []byte {
	c.mu.Lock()
	defer c.mu.Unlock()
	var out []byte
	for _, w := range c.Writes {
		out = append(out, w...)
	}
	return out
}

func (c *Conn) Close() error {
	c.mu.Lock()
	c.closed = true
	c.mu.Unlock()
	return nil
}

func (c *Conn) LocalAddr() net.Addr                { return addr("script-local") }
func (c *Conn) RemoteAddr() net.Addr               { return c.remote }
func (c *Conn) SetDeadline(t time.Time) error      { return nil }
func (c *Conn) SetReadDeadline(t time.Time) error  { return nil }
func (c *Conn) SetWriteDeadline(t time.Time) error { return nil }

package script

import "runtime"

func yield() { runtime.Gosched() }

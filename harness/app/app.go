// Package app is the accessory-side harness: it starts a real hc IP transport on a scratch
// storage directory, learns the port from hc's own log line, captures hc's log and net/http's
// panic lines, and snapshots the pairing database.
package app

import (
	"bytes"
	"crypto/sha256"
	"encoding/hex"
	"encoding/json"
	"errors"
	"fmt"
	stdlog "log"
	"os"
	"path/filepath"
	"regexp"
	"sort"
	"strings"
	"sync"
	"time"

	"github.com/brutella/hc"
	"github.com/brutella/hc/accessory"
	hclog "github.com/brutella/hc/log"

	"verif/refctl"
)

type transport interface {
	Start()
	Stop() <-chan struct{}
	VerifTXT() map[string]string
}

// App is one running accessory.
type App struct {
	T    transport
	Addr string
	Port string
	Dir  string
	Pin  string // 8 digits
	Accs []*accessory.Accessory

	stopped chan struct{}
}

// ---------------------------------------------------------------- log capture

type capture struct {
	mu      sync.Mutex
	lines   []string
	portCh  chan string
	partial bytes.Buffer
}

var rePort = regexp.MustCompile(`Listening on port (\d+)`)

func (c *capture) Write(p []byte) (int, error) {
	c.mu.Lock()
	defer c.mu.Unlock()
	c.partial.Write(p)
	for {
		b := c.partial.Bytes()
		i := bytes.IndexByte(b, '\n')
		if i < 0 {
			break
		}
		line := string(b[:i])
		c.partial.Next(i + 1)
		if m := rePort.FindStringSubmatch(line); m != nil && c.portCh != nil {
			select {
			case c.portCh <- m[1]:
			default:
			}
			continue
		}
		if len(c.lines) < 20000 {
			c.lines = append(c.lines, line)
		}
	}
	return len(p), nil
}

func (c *capture) take() []string {
	c.mu.Lock()
	defer c.mu.Unlock()
	l := c.lines
	c.lines = nil
	return l
}

var (
	hcCap   = &capture{portCh: make(chan string, 1)}
	stdCap  = &capture{}
	initOne sync.Once
	startMu sync.Mutex
)

func initCapture() {
	initOne.Do(func() {
		hclog.Info.SetOutput(hcCap)
		stdlog.SetOutput(stdCap)
		stdlog.SetFlags(0)
	})
}

// TakeHCLog returns and clears hc's INFO log lines.
func TakeHCLog() []string { initCapture(); return hcCap.take() }

// TakeStdLog returns and clears the lines of the standard logger (net/http reports handler panics there).
func TakeStdLog() []string { initCapture(); return stdCap.take() }

// HTTPPanics extracts "http: panic serving <addr>: <text>" entries (with the following stack) from std log lines.
type HTTPPanic struct {
	Remote string
	Text   string
	Stack  string
}

var rePanic = regexp.MustCompile(`^http: panic serving ([^ ]+): (.*)$`)

func HTTPPanics(lines []string) []HTTPPanic {
	var out []HTTPPanic
	for i := 0; i < len(lines); i++ {
		m := rePanic.FindStringSubmatch(lines[i])
		if m == nil {
			continue
		}
		p := HTTPPanic{Remote: m[1], Text: m[2]}
		var st []string
		for j := i + 1; j < len(lines) && !rePanic.MatchString(lines[j]); j++ {
			st = append(st, lines[j])
			i = j
		}
		p.Stack = strings.Join(st, "\n")
		out = append(out, p)
	}
	return out
}

// ---------------------------------------------------------------- start / stop

// FormatCode turns 8 digits into XXX-XX-XXX.
func FormatCode(pin string) string {
	if len(pin) != 8 {
		return pin
	}
	return pin[:3] + "-" + pin[3:5] + "-" + pin[5:]
}

// Start creates and starts a transport. dir is the storage directory (created when missing).
func Start(dir, pin string, first *accessory.Accessory, rest ...*accessory.Accessory) (*App, error) {
	return StartWith(hc.Config{StoragePath: dir, Pin: pin}, nil, first, rest...)
}

// StartWith is Start with a full configuration and an optional hook that runs before Start()
// (e.g. to set CameraSnapshotReq; prepare receives the concrete transport as interface{}).
func StartWith(cfg hc.Config, prepare func(t interface{}), first *accessory.Accessory, rest ...*accessory.Accessory) (*App, error) {
	initCapture()
	t, err := hc.NewIPTransport(cfg, first, rest...)
	if err != nil {
		return nil, err
	}
	if prepare != nil {
		prepare(t)
	}
	a := &App{T: t, Dir: cfg.StoragePath, Pin: cfg.Pin, stopped: make(chan struct{})}
	a.Accs = append([]*accessory.Accessory{first}, rest...)
	startMu.Lock()
	defer startMu.Unlock()
	// drain a stale port message
	select {
	case <-hcCap.portCh:
	default:
	}
	go func() {
		defer close(a.stopped)
		t.Start()
	}()
	select {
	case p := <-hcCap.portCh:
		a.Port = p
		a.Addr = "127.0.0.1:" + p
	case <-a.stopped:
		return nil, errors.New("app: transport stopped before it listened")
	case <-time.After(30 * time.Second):
		return nil, errors.New("app: transport did not report its port within 30 s (watchdog)")
	}
	return a, nil
}

// Stop stops the transport and waits for it.
func (a *App) Stop() {
	ch := a.T.Stop()
	select {
	case <-ch:
	case <-time.After(20 * time.Second):
	}
}

// TXT returns the advertised txt records.
func (a *App) TXT() map[string]string { return a.T.VerifTXT() }

// Code is the setup code as the controller enters it.
func (a *App) Code() string { return FormatCode(a.Pin) }

// ---------------------------------------------------------------- storage snapshots

// Snapshot maps file name to content hash for every file in the storage directory.
func Snapshot(dir string) map[string]string {
	out := map[string]string{}
	ents, err := os.ReadDir(dir)
	if err != nil {
		return out
	}
	for _, e := range ents {
		if e.IsDir() {
			continue
		}
		b, err := os.ReadFile(filepath.Join(dir, e.Name()))
		if err != nil {
			out[e.Name()] = "unreadable"
			continue
		}
		h := sha256.Sum256(b)
		out[e.Name()] = hex.EncodeToString(h[:8]) + fmt.Sprintf("/%d", len(b))
	}
	return out
}

// DiffSnapshots lists what changed from a to b.
func DiffSnapshots(a, b map[string]string) []string {
	var out []string
	for k, v := range b {
		if av, ok := a[k]; !ok {
			out = append(out, "+"+k)
		} else if av != v {
			out = append(out, "~"+k)
		}
	}
	for k := range a {
		if _, ok := b[k]; !ok {
			out = append(out, "-"+k)
		}
	}
	sort.Strings(out)
	return out
}

// StoredEntity is an entity file as found on disk.
type StoredEntity struct {
	Name       string
	PublicKey  []byte
	PrivateKey []byte
	File       string
}

// Entities parses every *.entity file of the storage directory (independently of hc's db package).
func Entities(dir string) ([]StoredEntity, error) {
	ents, err := os.ReadDir(dir)
	if err != nil {
		return nil, err
	}
	var out []StoredEntity
	for _, e := range ents {
		if e.IsDir() || !strings.HasSuffix(e.Name(), ".entity") {
			continue
		}
		b, err := os.ReadFile(filepath.Join(dir, e.Name()))
		if err != nil {
			return out, err
		}
		var se StoredEntity
		if err := json.Unmarshal(b, &se); err != nil {
			return out, fmt.Errorf("%s: %v", e.Name(), err)
		}
		se.File = e.Name()
		out = append(out, se)
	}
	sort.Slice(out, func(i, j int) bool { return out[i].File < out[j].File })
	return out, nil
}

// Controllers returns the stored entities without a private key (the accessory's own entity has one).
func Controllers(dir string) ([]StoredEntity, error) {
	all, err := Entities(dir)
	var out []StoredEntity
	for _, e := range all {
		if len(e.PrivateKey) == 0 {
			out = append(out, e)
		}
	}
	return out, err
}

// AccessoryEntity returns the accessory's own entity (the one with a private key).
func AccessoryEntity(dir string) (StoredEntity, bool) {
	all, _ := Entities(dir)
	for _, e := range all {
		if len(e.PrivateKey) > 0 {
			return e, true
		}
	}
	return StoredEntity{}, false
}

// StoreController writes a controller entity file the way hc's database lays it out
// (hex(name).entity with JSON {Name, PublicKey, PrivateKey}); used to pre-populate pairings.
func StoreController(dir string, id *refctl.Identity) error {
	b, _ := json.Marshal(map[string]interface{}{"Name": id.ID, "PublicKey": []byte(id.LTPK), "PrivateKey": nil})
	return os.WriteFile(filepath.Join(dir, hex.EncodeToString([]byte(id.ID))+".entity"), b, 0o666)
}

// ---------------------------------------------------------------- controller helpers

// Pair runs pair-setup on a fresh connection and returns the setup state.
func (a *App) Pair(me *refctl.Identity) (*refctl.Setup, error) {
	c, err := refctl.Dial(a.Addr)
	if err != nil {
		return nil, err
	}
	defer c.Close()
	return c.PairSetup(me, a.Code(), nil)
}

// Verified opens a new connection and runs pair-verify; accLTPK/accID may be nil/"" to skip those checks.
func (a *App) Verified(me *refctl.Identity, accLTPK []byte, accID string) (*refctl.Conn, error) {
	c, err := refctl.Dial(a.Addr)
	if err != nil {
		return nil, err
	}
	if _, err := c.PairVerify(me, accLTPK, accID, nil); err != nil {
		c.Close()
		return nil, err
	}
	return c, nil
}

// ScratchDir returns a fresh directory below base.
var scratchSeq int64
var scratchMu sync.Mutex

func ScratchDir(base, prefix string) string {
	scratchMu.Lock()
	scratchSeq++
	n := scratchSeq
	scratchMu.Unlock()
	d := filepath.Join(base, fmt.Sprintf("%s-%d-%d", prefix, os.Getpid(), n))
	os.RemoveAll(d)
	os.MkdirAll(d, 0o755)
	return d
}

// ConfirmUnanswered implements the bounded-progress rule: a request on pending is unanswered when
// k complete round trips (probe) on other connections finish while it is still pending and a last
// short poll of pending yields nothing.  It returns (true, nil) when unanswered, (false, nil) when an
// answer did arrive after all, and an error when the probe itself failed (inconclusive).
func ConfirmUnanswered(pending *refctl.Conn, k int, probe func() error) (bool, *refctl.Message, error) {
	for i := 0; i < k; i++ {
		if err := probe(); err != nil {
			return false, nil, fmt.Errorf("probe %d failed: %v", i, err)
		}
	}
	m, err := pending.Poll(200 * time.Millisecond)
	if err == nil {
		return false, m, nil
	}
	if err == refctl.ErrTimeout {
		return true, nil, nil
	}
	// the connection died meanwhile: that is not "unanswered" but "closed"
	return false, nil, nil
}

// Probe performs one complete plaintext round trip on a fresh connection (a pair-verify start,
// which any peer may send): the unit of "progress on other connections" for ConfirmUnanswered.
func (a *App) Probe() error {
	c, err := refctl.Dial(a.Addr)
	if err != nil {
		return err
	}
	defer c.Close()
	c.Timeout = 20 * time.Second
	_, pub := refctl.NewEphemeral(nil)
	m, _, err := c.PostTLV("/pair-verify", refctl.VerifyM1(pub[:]))
	if err != nil {
		return err
	}
	if m.Status != 200 {
		return fmt.Errorf("probe answered %d", m.Status)
	}
	return nil
}

// Unanswered applies the bounded-progress rule with the plaintext probe.
func (a *App) Unanswered(pending *refctl.Conn) (bool, *refctl.Message, error) {
	return ConfirmUnanswered(pending, 50, a.Probe)
}

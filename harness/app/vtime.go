package app

// Virtual idle time.  HomeKit connections stay open and idle for minutes to hours; what a handler arms on a
// connection (a read or write deadline) may only show long after the handler has returned.  Deadlines are the one
// place where wall-clock time enters a connection, and they are absolute: so "d has passed" is produced exactly by
// moving every armed deadline of every live accepted connection d towards the past.  The accepted connections are
// wrapped through the verifhook.WrapConn hook; the wrapper only records deadlines and forwards everything.

import (
	"net"
	"sync"
	"time"

	"github.com/brutella/hc/verifhook"
)

type vtConn struct {
	net.Conn
	mu     sync.Mutex
	rd, wd time.Time // armed deadlines in the accessory's own terms, minus the jumps since they were armed
	closed bool
}

var (
	vtMu    sync.Mutex
	vtConns = map[*vtConn]struct{}{}
	vtOn    bool
	vtJumps int
)

// EnableTimeJumps installs the connection wrapper (idempotent; process-wide).
func EnableTimeJumps() {
	vtMu.Lock()
	defer vtMu.Unlock()
	if vtOn {
		return
	}
	vtOn = true
	verifhook.InstallWrapConn(func(c net.Conn) net.Conn {
		v := &vtConn{Conn: c}
		vtMu.Lock()
		vtConns[v] = struct{}{}
		vtMu.Unlock()
		return v
	})
}

func (v *vtConn) SetDeadline(t time.Time) error {
	v.mu.Lock()
	defer v.mu.Unlock()
	v.rd, v.wd = t, t
	return v.Conn.SetDeadline(t)
}

func (v *vtConn) SetReadDeadline(t time.Time) error {
	v.mu.Lock()
	defer v.mu.Unlock()
	v.rd = t
	return v.Conn.SetReadDeadline(t)
}

func (v *vtConn) SetWriteDeadline(t time.Time) error {
	v.mu.Lock()
	defer v.mu.Unlock()
	v.wd = t
	return v.Conn.SetWriteDeadline(t)
}

func (v *vtConn) Close() error {
	v.mu.Lock()
	v.closed = true
	v.mu.Unlock()
	vtMu.Lock()
	delete(vtConns, v)
	vtMu.Unlock()
	return v.Conn.Close()
}

// Jump lets d pass for every live accepted connection: armed deadlines move d towards the past.  It returns the
// number of connections and of armed deadlines that were moved.
func Jump(d time.Duration) (conns, armed int) {
	conns, _, w := JumpRW(d)
	return conns, w
}

// JumpRW is Jump reporting armed read and write deadlines separately.
func JumpRW(d time.Duration) (conns, armedRead, armed int) {
	vtMu.Lock()
	var live []*vtConn
	for v := range vtConns {
		live = append(live, v)
	}
	vtJumps++
	vtMu.Unlock()
	for _, v := range live {
		v.mu.Lock()
		if v.closed {
			v.mu.Unlock()
			continue
		}
		conns++
		if !v.rd.IsZero() {
			v.rd = v.rd.Add(-d)
			v.Conn.SetReadDeadline(v.rd)
			armedRead++
		}
		if !v.wd.IsZero() {
			v.wd = v.wd.Add(-d)
			v.Conn.SetWriteDeadline(v.wd)
			armed++
		}
		v.mu.Unlock()
	}
	return
}

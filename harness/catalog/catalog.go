// Package catalog holds the tables of every constructor the packages characteristic, service and
// accessory of brutella/hc export.  The tables are filled by zz_generated.go, which
// `go run ./cmd/gencatalog <repo> harness/catalog/zz_generated.go` writes from the AST of the tree
// under test (the check script does that before every build of a monitor that has a NEEDS_CATALOG
// marker).  Without the generated file the package still compiles and all tables are empty.
//
// A catalog entry is a constructor that needs no type identifier from the caller.  Its closure calls
// the real constructor and walks the embedded-field chain (read from the AST of the returned struct
// type) down to the embedded base object, e.g. NewBrightness() -> .Int -> .Characteristic.  A nil
// pointer met on the way is reported (Probe) instead of dereferenced; a panic inside the constructor
// propagates to the caller (use the Safe* / Probe* helpers).
package catalog

import (
	"fmt"
	"reflect"
	"runtime/debug"
	"strings"

	"github.com/brutella/hc/accessory"
	"github.com/brutella/hc/characteristic"
	"github.com/brutella/hc/service"
)

// CharCtor is one exported constructor of package characteristic.
type CharCtor struct {
	Name         string                                                     // e.g. "NewBrightness"
	New          func() *characteristic.Characteristic                      // embedded base of a fresh object (nil if the object or a link of the chain is nil)
	TypeConst    string                                                     // value of const Type<Name without New> as declared in the source, "" if none
	HasTypeConst bool                                                       // whether that constant is declared
	Probe        func() (base *characteristic.Characteristic, nilAt string) // like New, and where the chain was nil ("" if nowhere)
	Chain        string                                                     // e.g. "NewBrightness().Int.Characteristic"
	File         string                                                     // e.g. "characteristic/brightness.go"
	Raw          func() interface{}                                         // the object exactly as the constructor returns it (concrete type)
}

// SvcCtor is one exported constructor of package service.
type SvcCtor struct {
	Name         string
	New          func() *service.Service
	TypeConst    string
	HasTypeConst bool
	Probe        func() (base *service.Service, nilAt string)
	Chain        string
	File         string
	Raw          func() interface{} // the object exactly as the constructor returns it (concrete type)
}

// AccCtor is one exported constructor of package accessory.  Parameters other than the Info are
// synthesised by the generator from their types (Args shows them).
type AccCtor struct {
	Name  string
	New   func(info accessory.Info) *accessory.Accessory
	Probe func(info accessory.Info) (base *accessory.Accessory, nilAt string)
	Chain string
	File  string
	Args  string                                // the argument list the closure passes, e.g. "info, 20, 10, 30, 1"
	Raw   func(info accessory.Info) interface{} // the object exactly as the constructor returns it (concrete type)
}

var (
	Chars       []CharCtor
	Services    []SvcCtor
	Accessories []AccCtor

	// Uncovered lists constructors the generator could not call ("pkg.Name: reason").
	Uncovered []string
	// Generic lists helper constructors that take the type identifier from the caller or do not
	// return a characteristic / service / accessory ("pkg.Name: reason"); they are not catalog entries.
	Generic []string
	// Source is the repository directory the generated file was produced from ("" if not generated).
	Source string
)

// DefaultInfo is the accessory.Info the monitors hand to accessory constructors.
func DefaultInfo() accessory.Info {
	return accessory.Info{Name: "verif", SerialNumber: "V-0001", Manufacturer: "verif", Model: "catalog", FirmwareRevision: "1.0.0"}
}

func guard(f func()) (panicText string) {
	defer func() {
		if e := recover(); e != nil {
			panicText = fmt.Sprintf("%v\n%s", e, debug.Stack())
		}
	}()
	f()
	return ""
}

// SafeChar calls the constructor; a panic is returned as text (ch is then nil).
func SafeChar(c CharCtor) (ch *characteristic.Characteristic, panicText string) {
	panicText = guard(func() { ch = c.New() })
	if panicText != "" {
		ch = nil
	}
	return
}

// SafeService calls the constructor; a panic is returned as text (s is then nil).
func SafeService(c SvcCtor) (s *service.Service, panicText string) {
	panicText = guard(func() { s = c.New() })
	if panicText != "" {
		s = nil
	}
	return
}

// SafeAccessory calls the constructor; a panic is returned as text (a is then nil).
func SafeAccessory(c AccCtor, info accessory.Info) (a *accessory.Accessory, panicText string) {
	panicText = guard(func() { a = c.New(info) })
	if panicText != "" {
		a = nil
	}
	return
}

// ProbeChar is SafeChar that also says where the embedded chain was nil.
func ProbeChar(c CharCtor) (ch *characteristic.Characteristic, nilAt string, panicText string) {
	panicText = guard(func() { ch, nilAt = c.Probe() })
	if panicText != "" {
		ch, nilAt = nil, ""
	}
	return
}

// ProbeService is SafeService that also says where the embedded chain was nil.
func ProbeService(c SvcCtor) (s *service.Service, nilAt string, panicText string) {
	panicText = guard(func() { s, nilAt = c.Probe() })
	if panicText != "" {
		s, nilAt = nil, ""
	}
	return
}

// ProbeAccessory is SafeAccessory that also says where the embedded chain was nil.
func ProbeAccessory(c AccCtor, info accessory.Info) (a *accessory.Accessory, nilAt string, panicText string) {
	panicText = guard(func() { a, nilAt = c.Probe(info) })
	if panicText != "" {
		a, nilAt = nil, ""
	}
	return
}

// NilFields walks the exported fields of v (the concrete object a constructor returned) and returns the paths of
// pointer fields that are nil, following struct pointers of the hc packages up to a small depth.
func NilFields(v interface{}) []string {
	var out []string
	seen := map[uintptr]bool{}
	var walk func(rv reflect.Value, path string, depth int)
	walk = func(rv reflect.Value, path string, depth int) {
		for rv.Kind() == reflect.Ptr || rv.Kind() == reflect.Interface {
			if rv.IsNil() {
				return
			}
			if rv.Kind() == reflect.Ptr {
				if seen[rv.Pointer()] {
					return
				}
				seen[rv.Pointer()] = true
			}
			rv = rv.Elem()
		}
		if rv.Kind() != reflect.Struct || depth > 4 || !strings.Contains(rv.Type().PkgPath(), "brutella/hc") {
			return
		}
		for i := 0; i < rv.NumField(); i++ {
			f := rv.Type().Field(i)
			if f.PkgPath != "" { // unexported
				continue
			}
			fv := rv.Field(i)
			if fv.Kind() == reflect.Ptr && fv.Type().Elem().Kind() == reflect.Struct {
				if fv.IsNil() {
					out = append(out, path+"."+f.Name)
					continue
				}
				walk(fv, path+"."+f.Name, depth+1)
			}
		}
	}
	walk(reflect.ValueOf(v), "", 0)
	return out
}

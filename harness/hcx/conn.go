// Package hcx holds small helpers that build hc objects for in-process monitors.
package hcx

import (
	"net"

	"github.com/brutella/hc/crypto"
	"github.com/brutella/hc/hap"
)

// StubDevice is a hap.SecuredDevice without a database.
type StubDevice struct {
	N         string
	Priv, Pub []byte
	P         string
}

func (d *StubDevice) Name() string       { return d.N }
func (d *StubDevice) PrivateKey() []byte { return d.Priv }
func (d *StubDevice) PublicKey() []byte  { return d.Pub }
func (d *StubDevice) Pin() string        { return d.P }

// NewContext returns a hap context with a stub device.
func NewContext() hap.Context {
	return hap.NewContextForSecuredDevice(&StubDevice{N: "AA:BB:CC:DD:EE:FF", P: "001-02-003"})
}

// ServerConn wraps c like the accessory's listener does and installs the accessory-side
// session for the shared secret, as pair-verify does.
func ServerConn(c net.Conn, ctx hap.Context, secret [32]byte) (*hap.Connection, error) {
	hc := hap.NewConnection(c, ctx)
	cr, err := crypto.NewSecureSessionFromSharedKey(secret)
	if err != nil {
		return nil, err
	}
	ctx.GetSessionForConnection(c).SetCryptographer(cr)
	return hc, nil
}
